// corpus grammar `reent_self_plain`: the same function, the nested parse runs on a helper thread
use crate::simrt::hook_yield;
use peginator::PegParser;

pub fn ext_quoted(s: &str) -> Result<(String, usize), &'static str> {
    hook_yield("ext_quoted:enter");
    if !s.starts_with('"') {
        return Err("expected a quoted sum");
    }
    let n = s[1..].find('"').ok_or("expected the closing quote")?;
    let text = s[1..1 + n].to_string();
    let inner = std::thread::Builder::new()
        .stack_size(64 << 20)
        .spawn(move || format!("{:?}", Sum::parse(&text)))
        .map_err(|_| "could not start the helper thread")?
        .join()
        .map_err(|_| "inner parse panicked")?;
    hook_yield("ext_quoted:leave");
    Ok((inner, n + 2))
}
