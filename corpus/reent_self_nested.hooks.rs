// corpus grammar `reent_self_nested`: the extern function parses the quoted text with this very grammar, on the calling thread
use crate::simrt::hook_yield;
use peginator::PegParser;

pub fn ext_quoted(s: &str) -> Result<(String, usize), &'static str> {
    hook_yield("ext_quoted:enter");
    if !s.starts_with('"') {
        return Err("expected a quoted sum");
    }
    let n = s[1..].find('"').ok_or("expected the closing quote")?;
    let inner = Sum::parse(&s[1..1 + n]);
    hook_yield("ext_quoted:leave");
    Ok((format!("{inner:?}"), n + 2))
}
