// corpus grammar `reent_nested`: the extern function runs another generated parser on the calling thread
use crate::simrt::hook_yield;
use peginator::PegParser;

pub fn ext_nested(s: &str) -> Result<(String, usize), &'static str> {
    hook_yield("ext_nested:enter");
    let n = s.find(';').ok_or("expected ';' after the nested text")?;
    let inner = crate::generated::kw_m0::Kw::parse(&s[..n]);
    hook_yield("ext_nested:leave");
    Ok((format!("{inner:?}"), n))
}
