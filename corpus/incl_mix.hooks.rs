// user functions of corpus grammar `incl_mix` (pure; a yield point)
use crate::simrt::hook_yield;

pub fn check_byte(b: &Byte) -> bool {
    hook_yield("check_byte");
    b.d.len() <= 3 && b.d.parse::<u32>().map_or(false, |v| v < 256)
}
