// user functions of corpus grammar `memo_mix` (pure; every one is a yield point)
use crate::simrt::hook_yield;

pub fn check_item(i: &Item) -> bool {
    hook_yield("check_item");
    i.name.len() <= 4
}

pub fn ext_word(s: &str) -> Result<(&str, usize), &'static str> {
    hook_yield("ext_word");
    let n = s.bytes().take_while(|b| b.is_ascii_lowercase()).count();
    if n == 0 {
        Err("expected word")
    } else {
        Ok((&s[..n], n))
    }
}
