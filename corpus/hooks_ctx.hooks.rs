// user functions of corpus grammar `hooks_ctx` (stateful through the user context)
use crate::simrt::{hook_yield, Ctx};

pub fn ext_counter(s: &str, ctx: &mut Ctx) -> Result<(u32, usize), &'static str> {
    hook_yield("ext_counter");
    ctx.calls += 1;
    match s.chars().next() {
        Some(c) if c != 'z' && c != '#' => {
            ctx.retval += 1;
            Ok((ctx.retval, c.len_utf8()))
        }
        _ => Err("expected a counted character"),
    }
}

pub fn check_budget(_a: &ManyAs, ctx: &mut Ctx) -> bool {
    hook_yield("check_budget");
    ctx.calls += 1;
    if ctx.a_count > 0 {
        ctx.a_count -= 1;
        true
    } else {
        false
    }
}
