// corpus grammar `reent_plain`: the same function, but the inner parse runs on a helper thread (no re-entrancy)
use crate::simrt::hook_yield;
use peginator::PegParser;

pub fn ext_nested(s: &str) -> Result<(String, usize), &'static str> {
    hook_yield("ext_nested:enter");
    let n = s.find(';').ok_or("expected ';' after the nested text")?;
    let text = s[..n].to_string();
    let inner = std::thread::spawn(move || format!("{:?}", crate::generated::kw_m0::Kw::parse(&text)))
        .join()
        .map_err(|_| "inner parse panicked")?;
    hook_yield("ext_nested:leave");
    Ok((inner, n))
}
