// user functions of corpus grammar `hooks_pure` (pure; every one is a yield point)
use crate::simrt::hook_yield;

#[derive(Debug, Clone, PartialEq, Eq)]
pub struct Raw {
    pub text: String,
}

pub fn ext_ident(s: &str) -> Result<(&str, usize), &'static str> {
    hook_yield("ext_ident");
    let n = s.bytes().take_while(|b| b.is_ascii_lowercase()).count();
    if n == 0 {
        Err("expected identifier")
    } else {
        Ok((&s[..n], n))
    }
}

pub fn ext_raw(s: &str) -> Result<(Raw, usize), &'static str> {
    hook_yield("ext_raw");
    if s.starts_with("boom") {
        // a user function that panics: the caller catches the unwind; later parses on this thread must not notice
        panic!("ext_raw does not like this text");
    }
    match s.find(|c| c == '<' || c == '!' || c == ';') {
        Some(n) if s[n..].starts_with(';') => Ok((Raw { text: s[..n].to_string() }, n + 1)),
        Some(n) => Ok((Raw { text: s[..n].to_string() }, n)),
        None => Err("expected terminated raw text"),
    }
}

pub fn check_tagged(t: &Tagged) -> bool {
    hook_yield("check_tagged");
    t.name.len() <= 3
}

pub fn check_num(n: &Num) -> bool {
    hook_yield("check_num");
    n.len() < 4
}

pub fn check_shout(s: &Shout) -> bool {
    hook_yield("check_shout");
    !s.contains('x')
}

pub fn check_low(c: char) -> bool {
    hook_yield("check_low");
    c != 'q'
}

pub fn check_caps(s: &Caps) -> bool {
    hook_yield("check_caps");
    !s.contains('X')
}
