// user functions of corpus grammar `ctx_packed`: they only read the user context (side-effect free)
use crate::simrt::{hook_yield, Ctx};

pub fn check_known(k: &Known, ctx: &mut Ctx) -> bool {
    hook_yield("check_known");
    (k.b.as_bytes()[0] as u32 + ctx.a_count) % 3 != 0
}
