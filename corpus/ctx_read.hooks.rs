// user functions of corpus grammar `ctx_read`: they only read the user context (side-effect free)
use crate::simrt::{hook_yield, Ctx};

pub fn check_big(b: &Big, ctx: &mut Ctx) -> bool {
    hook_yield("check_big");
    b.n.len() as u32 > ctx.a_count
}
