// user functions of corpus grammar `alias_chk` (pure; a yield point)
use crate::simrt::hook_yield;

pub fn check_small(n: &Small) -> bool {
    hook_yield("check_small");
    n.len() <= 2
}

pub fn check_tiny(n: &Tiny) -> bool {
    hook_yield("check_tiny");
    n.len() <= 1
}
