// Simulated libc boundary for child processes of the proc-sim / parse-sim engines.
// Loaded with LD_PRELOAD.  Everything it does is a function of environment
// variables written by the orchestrator from the simulation seed:
//
//   VERIF_ENTROPY=<u64>      getrandom()/getentropy()/reads of /dev/[u]random return a
//                            splitmix64 stream seeded with this value
//   VERIF_CLOCK=<sec>:<step_ns>  CLOCK_REALTIME, gettimeofday, time start at <sec> and
//                            advance by <step_ns> per call (a jump is a large step)
//   VERIF_FAULTS=<rule>;<rule>...   rule = <op>:<path-substring>:<nth>:<action>
//        op      open | read | write
//        path    substring of the path given to open (read/write rules apply to fds
//                opened through such a path); @stdout / @stderr name fd 1 / 2
//        nth     1-based ordinal of the matching call that is hit; 0 = every call
//        action  e<errno> fail with that errno | short<k> transfer at most k bytes
//                | die<k> (write only) transfer k bytes, then _exit(137)
//   VERIF_HEAP_PAD=<n>       constructor allocates (and leaks) n blocks of seeded size,
//                            moving later heap addresses as a function of the seed
//   VERIF_SHIM_LOG=<path>    one line per call the shim acted on (never draws from the
//                            PRNG, never reads a clock)
#define _GNU_SOURCE
#include <dirent.h>
#include <dlfcn.h>
#include <errno.h>
#include <fcntl.h>
#include <stdarg.h>
#include <stdint.h>
#include <stdio.h>
#include <stdlib.h>
#include <string.h>
#include <sys/syscall.h>
#include <sys/time.h>
#include <sys/types.h>
#include <time.h>
#include <unistd.h>
#include <pthread.h>

#define MAXRULES 16
#define MAXFD 1024

enum { OP_OPEN, OP_READ, OP_WRITE };
enum { ACT_ERR, ACT_SHORT, ACT_DIE };

struct rule {
  int op;
  char path[256];
  long nth;
  int act;
  long arg;
  long seen;
};

static struct rule rules[MAXRULES];
static int nrules;
static int inited;
static int have_entropy;
static uint64_t ent_state;
static int have_clock;
static int64_t clock_sec;
static int64_t clock_step_ns;
static int64_t clock_calls;
static unsigned fd_rules[MAXFD]; /* bitmask of rules whose path matched at open */
static char logpath[512];
static pthread_mutex_t mu = PTHREAD_MUTEX_INITIALIZER;
static long getrandom_calls;

static ssize_t (*real_read)(int, void *, size_t);
static ssize_t (*real_write)(int, const void *, size_t);
static int (*real_close)(int);

static uint64_t splitmix(uint64_t *s) {
  uint64_t z = (*s += 0x9E3779B97F4A7C15ULL);
  z = (z ^ (z >> 30)) * 0xBF58476D1CE4E5B9ULL;
  z = (z ^ (z >> 27)) * 0x94D049BB133111EBULL;
  return z ^ (z >> 31);
}

static void shim_log(const char *fmt, ...) {
  if (!logpath[0]) return;
  char buf[768];
  va_list ap;
  va_start(ap, fmt);
  int n = vsnprintf(buf, sizeof buf - 1, fmt, ap);
  va_end(ap);
  if (n < 0) return;
  if (n > (int)sizeof buf - 2) n = sizeof buf - 2;
  buf[n++] = '\n';
  int fd = syscall(SYS_openat, AT_FDCWD, logpath, O_WRONLY | O_APPEND | O_CREAT | O_CLOEXEC, 0644);
  if (fd >= 0) {
    syscall(SYS_write, fd, buf, n);
    syscall(SYS_close, fd);
  }
}

static void parse_rules(const char *spec) {
  char *copy = strdup(spec);
  char *save1 = NULL;
  for (char *tok = strtok_r(copy, ";", &save1); tok && nrules < MAXRULES; tok = strtok_r(NULL, ";", &save1)) {
    struct rule r;
    memset(&r, 0, sizeof r);
    char *p1 = strchr(tok, ':');
    if (!p1) continue;
    *p1++ = 0;
    char *p3 = strrchr(p1, ':');
    if (!p3) continue;
    *p3++ = 0;
    char *p2 = strrchr(p1, ':');
    if (!p2) continue;
    *p2++ = 0;
    if (!strcmp(tok, "open")) r.op = OP_OPEN;
    else if (!strcmp(tok, "read")) r.op = OP_READ;
    else if (!strcmp(tok, "write")) r.op = OP_WRITE;
    else continue;
    strncpy(r.path, p1, sizeof r.path - 1);
    r.nth = atol(p2);
    if (p3[0] == 'e') { r.act = ACT_ERR; r.arg = atol(p3 + 1); }
    else if (!strncmp(p3, "short", 5)) { r.act = ACT_SHORT; r.arg = atol(p3 + 5); }
    else if (!strncmp(p3, "die", 3)) { r.act = ACT_DIE; r.arg = atol(p3 + 3); }
    else continue;
    rules[nrules++] = r;
  }
  free(copy);
}

static void shim_init(void) {
  if (inited) return;
  inited = 1;
  real_read = dlsym(RTLD_NEXT, "read");
  real_write = dlsym(RTLD_NEXT, "write");
  real_close = dlsym(RTLD_NEXT, "close");
  const char *e = getenv("VERIF_ENTROPY");
  if (e && *e) { have_entropy = 1; ent_state = strtoull(e, NULL, 10); }
  const char *c = getenv("VERIF_CLOCK");
  if (c && *c) {
    have_clock = 1;
    clock_sec = strtoll(c, NULL, 10);
    const char *colon = strchr(c, ':');
    clock_step_ns = colon ? strtoll(colon + 1, NULL, 10) : 0;
  }
  const char *l = getenv("VERIF_SHIM_LOG");
  if (l && *l) strncpy(logpath, l, sizeof logpath - 1);
  const char *f = getenv("VERIF_FAULTS");
  if (f && *f) parse_rules(f);
  for (int i = 0; i < nrules; i++) {
    if (!strcmp(rules[i].path, "@stdout")) fd_rules[1] |= 1u << i;
    if (!strcmp(rules[i].path, "@stderr")) fd_rules[2] |= 1u << i;
  }
}

__attribute__((constructor)) static void shim_ctor(void) {
  shim_init();
  const char *h = getenv("VERIF_HEAP_PAD");
  if (h && *h) {
    long n = atol(h);
    uint64_t s = ent_state ^ 0xabcdef;
    for (long i = 0; i < n && i < 4096; i++) {
      size_t sz = 16 + (splitmix(&s) % 4096);
      volatile char *p = malloc(sz);
      if (p) p[0] = 1;
    }
  }
}

/* returns the index of a rule that fires for this call, or -1 */
static int fire(int op, unsigned mask, const char *path) {
  int hit = -1;
  pthread_mutex_lock(&mu);
  for (int i = 0; i < nrules; i++) {
    if (rules[i].op != op) continue;
    int match = path ? (strstr(path, rules[i].path) != NULL) : ((mask >> i) & 1);
    if (!match) continue;
    rules[i].seen++;
    if ((rules[i].nth == 0 || rules[i].seen == rules[i].nth) && (hit < 0 || (rules[hit].act == ACT_SHORT && rules[i].act != ACT_SHORT))) hit = i;
  }
  pthread_mutex_unlock(&mu);
  return hit;
}

static void fill_entropy(void *buf, size_t len) {
  unsigned char *p = buf;
  pthread_mutex_lock(&mu);
  getrandom_calls++;
  while (len) {
    uint64_t v = splitmix(&ent_state);
    size_t n = len < 8 ? len : 8;
    memcpy(p, &v, n);
    p += n;
    len -= n;
  }
  pthread_mutex_unlock(&mu);
}

ssize_t getrandom(void *buf, size_t len, unsigned flags) {
  shim_init();
  if (!have_entropy) return syscall(SYS_getrandom, buf, len, flags);
  fill_entropy(buf, len);
  shim_log("getrandom len=%zu", len);
  return (ssize_t)len;
}

int getentropy(void *buf, size_t len) {
  shim_init();
  if (!have_entropy) return syscall(SYS_getrandom, buf, len, 0) == (ssize_t)len ? 0 : -1;
  fill_entropy(buf, len);
  shim_log("getentropy len=%zu", len);
  return 0;
}

static int is_random_dev(const char *path) {
  return path && (!strcmp(path, "/dev/urandom") || !strcmp(path, "/dev/random"));
}

static unsigned random_fd_mask; /* fds (<32) opened on /dev/[u]random */

static int open_common(int dirfd, const char *path, int flags, mode_t mode) {
  shim_init();
  int hit = fire(OP_OPEN, 0, path ? path : "");
  if (hit >= 0 && rules[hit].act == ACT_ERR) {
    shim_log("open path=%s -> errno %ld", path, rules[hit].arg);
    errno = (int)rules[hit].arg;
    return -1;
  }
  int fd = syscall(SYS_openat, dirfd, path, flags, mode);
  if (fd >= 0 && fd < MAXFD) {
    unsigned mask = 0;
    for (int i = 0; i < nrules; i++)
      if (rules[i].op != OP_OPEN && path && strstr(path, rules[i].path)) mask |= 1u << i;
    fd_rules[fd] = mask;
    if (fd < 32) {
      if (have_entropy && is_random_dev(path)) random_fd_mask |= 1u << fd;
      else random_fd_mask &= ~(1u << fd);
    }
  }
  return fd;
}

int open(const char *path, int flags, ...) {
  mode_t mode = 0;
  if (flags & (O_CREAT | O_TMPFILE)) { va_list ap; va_start(ap, flags); mode = va_arg(ap, mode_t); va_end(ap); }
  return open_common(AT_FDCWD, path, flags, mode);
}
int open64(const char *path, int flags, ...) {
  mode_t mode = 0;
  if (flags & (O_CREAT | O_TMPFILE)) { va_list ap; va_start(ap, flags); mode = va_arg(ap, mode_t); va_end(ap); }
  return open_common(AT_FDCWD, path, flags | O_LARGEFILE, mode);
}
int openat(int dirfd, const char *path, int flags, ...) {
  mode_t mode = 0;
  if (flags & (O_CREAT | O_TMPFILE)) { va_list ap; va_start(ap, flags); mode = va_arg(ap, mode_t); va_end(ap); }
  return open_common(dirfd, path, flags, mode);
}
int openat64(int dirfd, const char *path, int flags, ...) {
  mode_t mode = 0;
  if (flags & (O_CREAT | O_TMPFILE)) { va_list ap; va_start(ap, flags); mode = va_arg(ap, mode_t); va_end(ap); }
  return open_common(dirfd, path, flags | O_LARGEFILE, mode);
}

DIR *opendir(const char *name) {
  shim_init();
  static DIR *(*real_opendir)(const char *);
  if (!real_opendir) real_opendir = dlsym(RTLD_NEXT, "opendir");
  int hit = fire(OP_OPEN, 0, name ? name : "");
  if (hit >= 0 && rules[hit].act == ACT_ERR) {
    shim_log("opendir path=%s -> errno %ld", name, rules[hit].arg);
    errno = (int)rules[hit].arg;
    return NULL;
  }
  return real_opendir(name);
}

int close(int fd) {
  shim_init();
  if (fd >= 0 && fd < MAXFD && fd > 2) fd_rules[fd] = 0;
  if (fd >= 0 && fd < 32) random_fd_mask &= ~(1u << fd);
  return real_close ? real_close(fd) : (int)syscall(SYS_close, fd);
}

ssize_t read(int fd, void *buf, size_t len) {
  shim_init();
  if (fd >= 0 && fd < 32 && (random_fd_mask >> fd) & 1) {
    fill_entropy(buf, len);
    shim_log("read /dev/urandom len=%zu", len);
    return (ssize_t)len;
  }
  if (fd >= 0 && fd < MAXFD && fd_rules[fd]) {
    int hit = fire(OP_READ, fd_rules[fd], NULL);
    if (hit >= 0) {
      if (rules[hit].act == ACT_ERR) {
        shim_log("read fd=%d len=%zu -> errno %ld", fd, len, rules[hit].arg);
        errno = (int)rules[hit].arg;
        return -1;
      }
      if (rules[hit].act == ACT_SHORT && (size_t)rules[hit].arg < len) {
        shim_log("read fd=%d len=%zu -> short %ld", fd, len, rules[hit].arg);
        len = (size_t)rules[hit].arg;
      }
    }
  }
  return real_read ? real_read(fd, buf, len) : syscall(SYS_read, fd, buf, len);
}

ssize_t write(int fd, const void *buf, size_t len) {
  shim_init();
  if (fd >= 0 && fd < MAXFD && fd_rules[fd]) {
    int hit = fire(OP_WRITE, fd_rules[fd], NULL);
    if (hit >= 0) {
      if (rules[hit].act == ACT_ERR) {
        shim_log("write fd=%d len=%zu -> errno %ld", fd, len, rules[hit].arg);
        errno = (int)rules[hit].arg;
        return -1;
      }
      if (rules[hit].act == ACT_SHORT && (size_t)rules[hit].arg < len) {
        shim_log("write fd=%d len=%zu -> short %ld", fd, len, rules[hit].arg);
        len = (size_t)rules[hit].arg;
      }
      if (rules[hit].act == ACT_DIE) {
        size_t k = (size_t)rules[hit].arg < len ? (size_t)rules[hit].arg : len;
        shim_log("write fd=%d len=%zu -> die after %zu", fd, len, k);
        if (k) syscall(SYS_write, fd, buf, k);
        _exit(137);
      }
    }
  }
  return real_write ? real_write(fd, buf, len) : syscall(SYS_write, fd, buf, len);
}

static int64_t clock_tick_ns(void) {
  pthread_mutex_lock(&mu);
  int64_t n = clock_calls++;
  pthread_mutex_unlock(&mu);
  return n * clock_step_ns;
}

int clock_gettime(clockid_t id, struct timespec *ts) {
  shim_init();
  if (have_clock && (id == CLOCK_REALTIME || id == CLOCK_REALTIME_COARSE)) {
    int64_t ns = clock_tick_ns();
    ts->tv_sec = clock_sec + ns / 1000000000LL;
    ts->tv_nsec = ns % 1000000000LL;
    shim_log("clock_gettime realtime -> %lld", (long long)ts->tv_sec);
    return 0;
  }
  return syscall(SYS_clock_gettime, id, ts);
}

int gettimeofday(struct timeval *tv, void *tz) {
  shim_init();
  if (have_clock) {
    int64_t ns = clock_tick_ns();
    tv->tv_sec = clock_sec + ns / 1000000000LL;
    tv->tv_usec = (ns % 1000000000LL) / 1000;
    shim_log("gettimeofday -> %lld", (long long)tv->tv_sec);
    return 0;
  }
  return syscall(SYS_gettimeofday, tv, tz);
}

time_t time(time_t *t) {
  shim_init();
  if (have_clock) {
    int64_t ns = clock_tick_ns();
    time_t v = clock_sec + ns / 1000000000LL;
    if (t) *t = v;
    shim_log("time -> %lld", (long long)v);
    return v;
  }
  struct timespec ts;
  syscall(SYS_clock_gettime, CLOCK_REALTIME, &ts);
  if (t) *t = ts.tv_sec;
  return ts.tv_sec;
}
