// launch <cmd> [args...]: disable address-space randomisation for the child tree
// (what `setarch -R` does) and exec.  personality() is inherited over fork/exec.
#include <stdio.h>
#include <sys/personality.h>
#include <unistd.h>
int main(int argc, char **argv) {
  if (argc < 2) { fprintf(stderr, "usage: launch cmd [args]\n"); return 2; }
  int p = personality(0xffffffff);
  if (p != -1) personality(p | ADDR_NO_RANDOMIZE);
  execvp(argv[1], argv + 1);
  perror("launch: execvp");
  return 127;
}
