#!/bin/bash
# tools/try_seed.sh <patch.diff> <check id> [quick|thorough]  - apply a seeded change to /repo, run a check, undo it
set -u
P="$1"; ID="$2"; TIER="${3:-quick}"
cd /repo || exit 2
if [ -n "$(git status --porcelain --untracked-files=no)" ]; then echo "/repo not clean"; exit 2; fi
git apply "$P" 2>/dev/null || git apply --3way "$P" || { echo "patch does not apply"; git reset -q --hard; exit 2; }
cd /verif && ./check "$ID" "$TIER"; RC=$?
cd /repo && git reset -q --hard && git clean -fdq -e target -e Cargo.lock
echo "try_seed rc=$RC"
exit $RC
