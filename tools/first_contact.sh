#!/bin/bash
# tools/first_contact.sh <tag> : runs the round's seeded changes (/tmp/wt_c??<tag>/_out/m*/patch.diff) against the COMMITTED
# state of /verif (git HEAD, not the working tree) in a private mount namespace, so that the first-contact rate is
# measured on the machinery as it was before anything was added in response.  Log: target/logs/first_contact_<tag>.log
set -u
TAG="$1"
PROPS="${2:-c15:C15 c16:C16 c18:C18 c05:C05 c20:C20}"
L=/tmp/fc_$TAG.$$
rm -rf "$L"; mkdir -p "$L/repo" "$L/verif"
rsync -a --exclude target /repo/ "$L/repo/"
git -C /verif archive HEAD | tar -x -C "$L/verif"
mkdir -p "$L/verif/target"
rsync -a --exclude run --exclude logs /verif/target/ "$L/verif/target/"
LOG=/verif/target/logs/first_contact_$TAG.log
touch "$LOG"
unshare -m bash -c "mount --bind $L/repo /repo && mount --bind $L/verif /verif && cd /verif && for p in $PROPS; do k=\${p%%:*}; id=\${p##*:}; for i in 1 2 3; do f=/tmp/wt_\${k}$TAG/_out/m\$i/patch.diff; [ -f \$f ] || continue; echo \"=== \$k$TAG m\$i\"; tools/try_seed.sh \$f \$id quick 2>&1 | grep -v '^KNOWN' | cut -c1-240 | tail -3; done; done" >> "$LOG" 2>&1
rm -rf "$L"
grep -c "rc=1" "$LOG"
