#!/usr/bin/env python3
"""Confirm seeded changes in their scratch worktrees (never in /repo) and file them under /verif/seeded/.

usage: confirm_seeds.py <worktree> <PROP> <tag> <demo-kind>
  demo-kind: macrotest | run_demo.sh | demo.sh | cargo-run
For every _out/m<i> of the worktree: (1) patch applies to the current /repo HEAD (rebased with keep-both conflict
resolution if needed), the workspace builds and `cargo test --workspace` passes with it (generated test grammars
regenerated), (2) the demonstration fails with the patch, (3) passes without it.  Writes seeded/<PROP>-<tag>-m<i>/."""
import json
import os
import re
import shutil
import subprocess
import sys

VERIF = os.path.dirname(os.path.dirname(os.path.abspath(__file__)))


def sh(cmd, cwd, timeout=3600):
    p = subprocess.run(cmd, cwd=cwd, shell=True, capture_output=True, timeout=timeout, env=dict(os.environ, CARGO_NET_OFFLINE="true", CARGO_TERM_COLOR="never"))
    return p.returncode, (p.stdout + p.stderr).decode(errors="replace")


def pristine(wt):
    sh("git reset -q --hard && git clean -fdq -e _out -e target", wt)


def apply_rebased(wt, patch, out_patch):
    rc, _ = sh("git apply '%s'" % patch, wt)
    if rc != 0:
        sh("git apply --3way '%s'" % patch, wt)
        rc2, files = sh("git diff --name-only --diff-filter=U", wt)
        for f in files.split():
            p = os.path.join(wt, f)
            s = open(p).read()
            s = re.sub(r'<<<<<<< ours\n(.*?)=======\n(.*?)>>>>>>> theirs\n', lambda m: m.group(1) + m.group(2), s, flags=re.S)
            open(p, "w").write(s)
            sh("git add '%s'" % f, wt)
    sh("git add -A -- . ':(exclude)_out' ':(exclude)target'", wt)
    rc, diff = sh("git diff --cached HEAD -- . ':(exclude)_out' ':(exclude)target'", wt)
    open(out_patch, "w").write(diff)
    sh("git reset -q", wt)
    return bool(diff.strip())


def main():
    wt, prop, tag, kind = sys.argv[1:5]
    head = subprocess.run(["git", "-C", "/repo", "rev-parse", "HEAD"], capture_output=True, text=True).stdout.strip()
    sh("git checkout -q --detach %s" % head, wt)
    for m in sorted(os.listdir(os.path.join(wt, "_out"))):
        src = os.path.join(wt, "_out", m)
        if not os.path.isfile(os.path.join(src, "patch.diff")):
            continue
        name = "%s-%s-%s" % (prop, tag, m)
        dst = os.path.join(VERIF, "seeded", name)
        os.makedirs(dst, exist_ok=True)
        pristine(wt)
        rebased = os.path.join(dst, "patch.diff")
        ok = apply_rebased(wt, os.path.join(src, "patch.diff"), rebased)
        meta = {"id": name, "property": prop, "base_commit": head, "patch_applies": ok}
        # (1) tests with the patch
        sh("find test/src -name grammar.rs -delete; touch test/build.rs", wt)
        rc, out = sh("cargo test --workspace --no-fail-fast --offline 2>&1 | grep -E '^test result|FAILED|^error' ", wt)
        passed = sum(int(x) for x in re.findall(r"(\d+) passed", out))
        failed = sum(int(x) for x in re.findall(r"(\d+) failed", out))
        meta["tests_with_patch"] = {"passed": passed, "failed": failed, "compiles": "error" not in out}
        # (2) demo with patch
        if kind == "macrotest":
            sh("git apply _out/%s/demo.diff" % m, wt)
            tname = [f for f in os.listdir(src) if f.endswith("_demo.rs")][0][:-3]
            demo = "cargo test -p peginator_macro --test %s --offline" % tname
        elif kind == "cargo-run":
            demo = "cd _out/%s/demo && cargo run --offline -q" % m
        else:
            demo = "sh _out/%s/%s" % (m, kind)
        rc_with, out_with = sh(demo, wt)
        # (3) demo without patch
        pristine(wt)
        sh("find test/src -name grammar.rs -delete; touch test/build.rs", wt)
        if kind == "macrotest":
            sh("git apply _out/%s/demo.diff" % m, wt)
        rc_without, out_without = sh(demo, wt)
        pristine(wt)
        meta["demo_cmd"] = demo
        meta["demo_with_patch"] = {"exit": rc_with, "tail": out_with[-600:]}
        meta["demo_without_patch"] = {"exit": rc_without, "tail": out_without[-300:]}
        meta["confirmed"] = bool(ok and failed == 0 and passed >= 65 and rc_with != 0 and rc_without == 0)
        notes = os.path.join(src, "notes.md")
        if os.path.exists(notes):
            shutil.copy(notes, os.path.join(dst, "notes.md"))
        ddst = os.path.join(dst, "demo")
        shutil.rmtree(ddst, ignore_errors=True)
        os.makedirs(ddst)
        for f in os.listdir(src):
            if f in ("patch.diff", "notes.md"):
                continue
            p = os.path.join(src, f)
            if os.path.isdir(p):
                shutil.copytree(p, os.path.join(ddst, f), ignore=shutil.ignore_patterns("target"))
            else:
                shutil.copy(p, ddst)
        old = {}
        mp = os.path.join(dst, "meta.json")
        if os.path.exists(mp):
            old = json.load(open(mp))
        old.update(meta)
        json.dump(old, open(mp, "w"), indent=1)
        print(name, "confirmed" if meta["confirmed"] else "NOT CONFIRMED", meta["tests_with_patch"], rc_with, rc_without, flush=True)
    for d in ("_out/m1/demo/target", "_out/m2/demo/target", "_out/m3/demo/target"):
        shutil.rmtree(os.path.join(wt, d), ignore_errors=True)


if __name__ == "__main__":
    main()
