#!/bin/bash
# tools/run_seeded_lanes.sh <lanes> [id-prefix ...]
# Runs tools/run_seeded.py over the seeded changes in <lanes> private mount namespaces at once.  Every lane sees its own
# copy of /repo and of /verif bind-mounted at the real paths (the checks and the Cargo manifests name /repo and /verif
# absolutely), so the real /repo is never patched.  The copies live under /tmp/lane<i> and are removed at the end; the
# check_runs entries of every lane's seeded/<id>/meta.json are merged back into /verif/seeded/<id>/meta.json.
# Sensitivity tooling only: the registered checks never use this.
set -u
N="${1:-4}"; shift || true
cd /verif || exit 2
if [ -n "$(git -C /repo status --porcelain --untracked-files=no)" ]; then echo "/repo not clean"; exit 2; fi
mapfile -t IDS < <(ls seeded | grep -v '^negative-controls$' | while read -r s; do
  if [ $# -eq 0 ]; then echo "$s"; else for p in "$@"; do case "$s" in "$p"*) echo "$s";; esac; done; fi; done)
echo "${#IDS[@]} seeded changes on $N lanes"
mkdir -p target/logs
rm -f target/logs/lane*.log
for ((i = 0; i < N; i++)); do
  L=/tmp/lane$i
  mkdir -p "$L/repo" "$L/verif"
  rsync -a --delete --exclude target /repo/ "$L/repo/"
  rsync -a --delete --exclude replays --exclude target/run /verif/ "$L/verif/"
  mine=()
  for ((k = i; k < ${#IDS[@]}; k += N)); do mine+=("${IDS[$k]}"); done
  [ ${#mine[@]} -eq 0 ] && continue
  unshare -m bash -c "mount --bind $L/repo /repo && mount --bind $L/verif /verif && cd /verif && python3 tools/run_seeded.py ${mine[*]}" \
    > "target/logs/lane$i.log" 2>&1 &
done
wait
python3 - "$N" <<'EOF'
import json, os, sys
n = int(sys.argv[1])
for i in range(n):
    d = "/tmp/lane%d/verif/seeded" % i
    if not os.path.isdir(d):
        continue
    # only what this lane ran itself (its log says so); its copies of the other metas are older than the real ones
    ran = set()
    try:
        for line in open("/verif/target/logs/lane%d.log" % i):
            if line.split() and line.split()[0] in os.listdir(d):
                ran.add(line.split()[0])
    except OSError:
        pass
    for sid in sorted(ran):
        lp, rp = os.path.join(d, sid, "meta.json"), os.path.join("/verif/seeded", sid, "meta.json")
        if not (os.path.exists(lp) and os.path.exists(rp)):
            continue
        lm, rm = json.load(open(lp)), json.load(open(rp))
        if lm.get("check_runs") and lm.get("check_runs") != rm.get("check_runs"):
            rm["check_runs"] = lm["check_runs"]
            with open(rp, "w") as f:
                json.dump(rm, f, indent=1, ensure_ascii=False)
                f.write("\n")
EOF
cat target/logs/lane*.log | sort > "target/logs/run_seeded_lanes.$(date +%H%M).log"
cp "target/logs/run_seeded_lanes.$(date +%H%M).log" target/logs/run_seeded_lanes.log
for ((i = 0; i < N; i++)); do rm -rf "/tmp/lane$i"; done
grep -c DETECTED target/logs/run_seeded_lanes.log
grep -v DETECTED target/logs/run_seeded_lanes.log
