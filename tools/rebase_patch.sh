#!/bin/bash
# tools/rebase_patch.sh <patch.diff> <out.diff>: apply with --3way onto /repo HEAD, resolve conflicts by keeping both sides, write the rebased diff
set -u
cd /repo || exit 2
git apply --3way "$1" >/dev/null 2>&1
for f in $(git diff --name-only --diff-filter=U); do
  python3 - "$f" <<'PY'
import re,sys
p=sys.argv[1]; s=open(p).read()
s=re.sub(r'<<<<<<< ours\n(.*?)=======\n(.*?)>>>>>>> theirs\n', lambda m: m.group(1)+m.group(2), s, flags=re.S)
open(p,'w').write(s)
PY
  git add "$f"
done
git diff HEAD > "$2"
git reset -q --hard && git clean -fdq -e target -e Cargo.lock
wc -l "$2"
