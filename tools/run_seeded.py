#!/usr/bin/env python3
"""Run the property's check against every seeded change (applied to /repo, undone straight afterwards)
and record the outcome in seeded/<id>/meta.json.   usage: run_seeded.py [id-prefix ...] [--tier quick|thorough]"""
import json
import os
import subprocess
import sys
import time

VERIF = os.path.dirname(os.path.dirname(os.path.abspath(__file__)))


def main():
    args = [a for a in sys.argv[1:] if not a.startswith("--")]
    tier = "quick"
    if "--tier" in sys.argv:
        tier = sys.argv[sys.argv.index("--tier") + 1]
        args = [a for a in args if a != tier]
    ids = sorted(os.listdir(os.path.join(VERIF, "seeded")))
    if args:
        ids = [i for i in ids if any(i.startswith(a) for a in args)]
    st = subprocess.run(["git", "-C", "/repo", "status", "--porcelain", "--untracked-files=no"], capture_output=True, text=True).stdout
    if st.strip():
        print("/repo is not clean; refusing")
        return 2
    for sid in ids:
        d = os.path.join(VERIF, "seeded", sid)
        mp = os.path.join(d, "meta.json")
        if not os.path.exists(mp):
            continue
        meta = json.load(open(mp))
        prop = meta["property"]
        t0 = time.time()
        a = subprocess.run(["git", "-C", "/repo", "apply", os.path.join(d, "patch.diff")], capture_output=True, text=True)
        if a.returncode != 0:
            print(sid, "patch does not apply:", a.stderr[-300:])
            continue
        try:
            p = subprocess.run([os.path.join(VERIF, "check"), prop, tier], cwd=VERIF, capture_output=True, text=True, timeout=7200)
        finally:
            subprocess.run("git -C /repo reset -q --hard && git -C /repo clean -fdq -e target -e Cargo.lock", shell=True)
        lines = [l for l in p.stdout.splitlines() if l.startswith("VIOLATION") or l.startswith("  ") or "HARNESS" in l]
        meta.setdefault("check_runs", {})[tier] = {
            "cmd": "git -C /repo apply seeded/%s/patch.diff && ./check %s %s ; git -C /repo checkout -- ." % (sid, prop, tier),
            "exit": p.returncode, "detected": p.returncode == 1, "wall_s": round(time.time() - t0, 1),
            "first_lines": lines[:4]}
        json.dump(meta, open(mp, "w"), indent=1)
        print("%-12s %s exit=%d  %s" % (sid, "DETECTED" if p.returncode == 1 else "MISSED" if p.returncode == 0 else "HARNESS-ERROR", p.returncode, (lines[1].strip() if len(lines) > 1 else "")[:140]), flush=True)
    return 0


if __name__ == "__main__":
    sys.exit(main())
