#!/usr/bin/env python3
"""Writes /verif/MANIFEST.json from the tables below (kept in one place so the
manifest stays valid and current).  Run after changing what is claimed."""
import json, os, sys

ROOT = os.path.dirname(os.path.dirname(os.path.abspath(__file__)))

NOT_APPLICABLE = {
    "C01": "PEG-language conformance is a pure function of (grammar, input): deciding it means comparing with an independent PEG semantics over generated grammars and inputs (differential testing); no schedule, clock, fault or history to simulate.",
    "C02": "Tree contents on the successful path are a pure function of (grammar, input); nothing for a scheduler or fault injector to decide.",
    "C03": "Generated type shapes are a compile-time function of (grammar, derive set) judged by rustc on generated code; there is no execution to schedule or fault.",
    "C04": "Panic-freedom / UTF-8 boundaries are memory safety of one sequential pure computation over (grammar, input); finding violating inputs is fuzzing, not simulation (the C20 Miri run would notice UB on its own jobs only as a by-product).",
    "C06": "The packrat bound counts rule-body evaluations inside one sequential parse; deterministic per (grammar, input); nothing to schedule or inject.",
    "C07": "@leftrec termination and tree shape are the result of one sequential parse; pure function of (grammar, input).",
    "C08": "Whitespace-skipping sites are a pure function of (grammar, input).",
    "C09": "@position ranges are a pure function of (grammar, input).",
    "C10": "Error position is a pure function of (grammar, input).",
    "C11": "Pretty error line/column is a pure function of (text, position).",
    "C12": "Reading grammar text into its AST is a pure function of the grammar text (layout variants are inputs).",
    "C13": ">Rule versus textual inlining is a pure function of (grammar pair, input).",
    "C14": "check/extern semantics are a pure function of (grammar, input, user functions); the user context is threaded through one sequential call.",
    "C17": "Bootstrap fixpoint is one fixed computation on repository files (regenerate, rebuild, regenerate, compare); no nondeterminism or fault in it beyond what C16 covers with grammar.ebnf in its pool.",
    "C19": "Tracer transparency: callback sequence and result are the same every time for a given (grammar, input); balance of entries/exits is a per-input property, not one of any schedule; the statement does not quantify over I/O faults on stderr.",
}

# property id -> check entry (without the common fields); filled in as checks are built
CHECKS = {}

def load_checks():
    p = os.path.join(ROOT, "tools", "checks.json")
    if os.path.exists(p):
        return json.load(open(p))
    return {}

def main():
    checks = load_checks()
    na = dict(NOT_APPLICABLE)
    pending = json.load(open(os.path.join(ROOT, "tools", "pending.json"))) if os.path.exists(os.path.join(ROOT, "tools", "pending.json")) else {}
    for k, v in pending.items():
        if k not in checks:
            na[k] = v
    entries = []
    for pid in sorted(checks):
        c = checks[pid]
        e = {
            "property_id": pid,
            "quick_cmd": f"./check {pid} quick",
            "thorough_cmd": f"./check {pid} thorough",
            "evidence_file": f"/verif/evidence/{pid}.json",
            "replay_cmd_template": f"./check {pid} --replay {{path}}",
        }
        e.update(c)
        entries.append(e)
    m = {
        "version": 1,
        "setup_cmd": "./setup.sh",
        "hooks": {
            "guard": "peginator_verif",
            "enable": "none needed: every seam used is public API (ParseTracer, @extern/@check user functions, PegParserAdvanced) or the libc symbol boundary of child processes (LD_PRELOAD shim); no source hooks exist, so checks build /repo unmodified",
            "baseline_off_cmd": "cd /repo && cargo test --workspace --no-fail-fast --offline",
            "source_commits": [],
            "add_only": True,
        },
        "engines": [
            {"name": "parse-sim", "path": "/verif/sim (bin sim-worker) + /verif/orch/parsesim.py",
             "serves_properties": ["C05", "C20"],
             "kind_free_text": "deterministic simulation: seeded baton scheduler over real OS threads, yield points at ParseTracer callbacks and @extern/@check user functions, one simulation per fresh process, isolated-process oracle"},
            {"name": "miri-sched", "path": "/verif/sim (bin miri_threads)",
             "serves_properties": ["C20"],
             "kind_free_text": "Miri's seeded deterministic thread scheduler with preemption and data-race detection over concurrent parse calls"},
            {"name": "proc-sim", "path": "/verif/shim/shim.c + /verif/sim (bin driver) + /verif/orch/procsim.py",
             "serves_properties": ["C15", "C16", "C18"],
             "kind_free_text": "deterministic simulation of the OS boundary of the tool routes: LD_PRELOAD shim owning entropy, clock, open/read/write faults and process death; seeded environments and file-system histories; compile-from-scratch reference model"},
        ],
        "checks": entries,
        "not_applicable": [{"property_id": k, "reason": na[k]} for k in sorted(na)],
        "notes": "Technique family: deterministic simulation with fault injection. See DESIGN.md. Exit codes of ./check: 0 held, 1 violation (VIOLATION line), 2 harness error.",
    }
    with open(os.path.join(ROOT, "MANIFEST.json"), "w") as f:
        json.dump(m, f, indent=1)
        f.write("\n")
    # validate
    try:
        import jsonschema
        jsonschema.validate(m, json.load(open("/root/.vp/MANIFEST.schema.json")))
        print("MANIFEST.json valid;", len(entries), "checks,", len(na), "not applicable")
    except ImportError:
        print("MANIFEST.json written (jsonschema not importable here; not validated)")

if __name__ == "__main__":
    main()
