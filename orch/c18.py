"""C18: after a successful Compile run the destination matches the current grammar.
Reference-model check of a stateful file protocol over seeded histories of
{edit grammar, change prefix, delete destination, run}; model = compile from scratch."""
import json
import os
import shutil
import threading
import time
from concurrent.futures import ThreadPoolExecutor

import procsim
from common import (NCPU, HarnessError, Rng, cleanup_run_dir, derive, load_known_findings, log, run_dir, short_hash,
                    sim_bin, write_evidence, write_replay)
from procsim import HEADER_RE, SENTINEL_MTIME, base_env, crc32_hex, run_child, split_driver_output

PREFIXES = ["", "use a;", "use a", "use a;\nuse b;", "// p", "pub struct ImJustHereToConfuse;", "use a; ", " use a;", "use A;", "use a;\n", "\n"]
PREFIXES_FORMAT = ["", "use a;", "use a;\nuse b;", "// p", "use  a ;", "pub struct   S ;", "fn ( {"]

FUTURE_MTIME = 2208988800  # 2040-01-01
GRAMMAR_MTIMES = {"now": None, "old": 631152000, "future": 2240611200, "same_as_destination": "dest"}

INVALID_SYNTAX = [b"@export\nA = 'a' ;;\n", b"A = ( 'a' ;\n", b"@export A 'a';\n", b"A = 'a'"]
INVALID_SEMANTIC = [b"@export\n@string\nA = 'a';\n", b"A = !(x:B) 'a';\nB = 'b';\n", b"A = @:B c:C;\nB = 'b';\nC = 'c';\n", b"A = >Missing;\n"]
def tricky_invalid():
    import c15
    mark = "\u00ab\u00bb"
    parts = c15.TRICKY_LEX.split(mark)
    out = []
    for mi in (2, 3, 5, 6):
        out.append(("".join(p + (" ;; " if k == mi else "") for k, p in enumerate(parts[:-1])) + parts[-1]).encode())
    return out


INVALID_UTF8 = [b"@export\nA = 'a';\n# \xff\xfe\n", b"A = '\xc3';\n"]


def valid_pool():
    pool = []
    for name, text in procsim.grammar_pool():
        if name.startswith("corpus:") and name.endswith(":m0"):
            pool.append(text)
    # families of near-identical texts: a shortcut that looks at less than the whole text would confuse them
    pool.append(b"@export\nA = 'a';\n")
    pool.append(b"@export\nA = 'a' ;\n")       # one space more (generated code is the same, only the header differs)
    pool.append(b"@export\nA = 'a';")            # no trailing newline
    pool.append(b"@export\r\nA = 'a';\r\n")     # CRLF line ends
    pool.append(b"@export\nA = 'a';\n  \n")      # trailing blank line
    pool.append(b"@export\nA = 'A';\n")          # case of the literal
    pool.append(b"# c1\n@export\nA = 'a';\n")    # comment only
    pool.append(b"# c2\n@export\nA = 'a';\n")
    pool.append(b"@export\nA = 'b';\n")
    pool.append(b"")                                   # an empty grammar is valid (no rules)
    pool.append(b"\n")
    pool.append(b"# nothing but a comment\n")
    import c15
    tricky = c15.TRICKY_LEX.replace("\u00ab\u00bb", "")
    pool.append(tricky.encode())                                   # quotes and '#' inside literals, quotes in comments
    pool.append(tricky.replace("'a'..'z'", "'a'..'y'").encode())  # edit on a line with an escaped quote and a '#' literal
    pool.append(tricky.replace("# last line comment", "# last line").encode())
    big = open(os.path.join(procsim.REPO, "grammar.ebnf"), "rb").read()
    pool.append(big + b"\n# tail 1\n")          # long texts that differ only after several kilobytes
    pool.append(big + b"\n# tail 2\n")
    pool.append(big.replace(b"AtLeastOneMarker = '+';", b"AtLeastOneMarker = '*';"))  # same length, one byte in the middle
    seen = set()
    out = []
    for t in pool:  # identical texts (corpus pairs that differ only in their hook files) are kept once
        if t not in seen:
            seen.add(t)
            out.append(t)
    if len({crc32_hex(t) for t in out}) != len(out):
        raise HarnessError("valid grammar pool has CRC collisions")
    return out


class Slot:
    def __init__(self, rel):
        self.rel = rel  # path of the grammar relative to the history directory
        self.kind = "absent"
        self.text = None
        self.linked = False  # the grammar is a symbolic link to the shared file shared/common.ebnf
        self.valid_history = []  # valid texts the slot has had, oldest first (an edit can go back to the one before)


def gen_history(seed, i, valid, tier):
    rng = Rng(derive(seed, "c18", i))
    mode = rng.weighted([("file", 50), ("dir", 50)])
    fmt = rng.coin(200)
    cfg = {"id": i, "mode": mode, "format": fmt, "entropy": rng.below(1 << 62),
           "explicit_dest": mode == "file" and rng.coin(500),
           # modification times are simulated state: the destination's sentinel may be older or newer than the grammars
           "dest_mtime": rng.choice([SENTINEL_MTIME, FUTURE_MTIME]),
           # settings are fixed per history; a grammar that does not compile under them counts as invalid
           "derives": rng.weighted([(None, 60), (["Debug", "Clone", "PartialEq", "Eq"], 20), ([], 20)]),
           "ctx": "crate::Ctx" if rng.coin(150) else None,
           # the whole history inside one process (state kept by Compile between runs of a process), or a process per run
           "one_process": rng.coin(250)}
    # the destination is a symbolic link to a file kept elsewhere (generated sources in another directory); process-per-run only
    cfg["dest_symlink"] = (not cfg["one_process"]) and rng.coin(120)
    if mode == "file":
        slots = [rng.choice(["g0.ebnf", "g0.ebnf", "g0.v2.ebnf"])]
    else:
        # x/g.ebnf and y/g.ebnf share their file stem; .hidden.ebnf is an ordinary grammar for the walk; names with several
        # dots next to their one-dot relatives (a.v2.ebnf -> a.v2.rs, not a.rs)
        slots = rng.sample(["src/a.ebnf", "src/sub/b.ebnf", "src/c.ebnf", "src/x/g.ebnf", "src/y/g.ebnf", "src/.hidden.ebnf",
                            "src/a.v2.ebnf", "src/c.d.e.ebnf", "src/sub/b.ebnf.ebnf"], rng.range(1, 4))
    cfg["slots"] = slots
    prefixes = PREFIXES_FORMAT if fmt else PREFIXES
    ops = []
    # initial state: every slot gets a valid grammar (mostly) so that the first run can succeed
    for s in range(len(slots)):
        ops.append(["edit", s, "valid", rng.below(len(valid)), "now"])
    if rng.coin(500):
        ops.append(["prefix", rng.below(len(prefixes))])
    ops.append(["run"])
    n = rng.range(3, 14)
    for _ in range(n):
        k = rng.weighted([("edit_valid", 22), ("edit_bad", 14), ("prefix", 18), ("delete", 8), ("damage", 5), ("run", 36)])
        if k == "edit_valid" and rng.coin(200):
            # back to the text the slot had before its latest valid text (A -> B -> A: an edit that is taken back)
            ops.append(["edit", rng.below(len(slots)), "revert", 0, rng.weighted([("now", 70), ("old", 20), ("same_as_destination", 10)])])
        elif k == "edit_valid" and rng.coin(120):
            # the grammar becomes a symbolic link to a file shared with other slots; editing it through one edits all
            ops.append(["edit", rng.below(len(slots)), "shared", rng.below(len(valid)), rng.weighted([("now", 60), ("old", 25), ("same_as_destination", 15)])])
        elif k == "edit_valid":
            # "old": content changes but the file looks older than the destination (cp -p, restored backup, renamed into place)
            ops.append(["edit", rng.below(len(slots)), "valid", rng.below(len(valid)), rng.weighted([("now", 50), ("old", 25), ("future", 10), ("same_as_destination", 15)])])
        elif k == "edit_bad":
            kinds = ["syntax", "semantic", "utf8", "removed", "dangling", "eio"] + (["is_dir"] if mode == "file" else [])
            kind = rng.choice(kinds)
            ops.append(["edit", rng.below(len(slots)), kind, rng.below(8), rng.weighted([("now", 60), ("old", 30), ("same_as_destination", 10)])])
        elif k == "prefix":
            ops.append(["prefix", rng.below(len(prefixes))])
        elif k == "delete":
            ops.append(["delete", rng.below(len(slots))])
        elif k == "damage":
            # beyond the stated alphabet: the destination is replaced by something that does NOT start with a complete
            # header (emptied, cut inside the header, binary, foreign text, line ends converted)
            ops.append(["damage", rng.below(len(slots)), rng.choice(["empty", "cut", "binary", "foreign", "crlf", "bom"]), rng.range(5, 150)])
        else:
            ops.append(["run"])
        if cfg["one_process"] and rng.coin(120):
            # a SECOND Compile value in the same process: file mode on one of the grammars, other settings, a destination
            # of its own (what one Compile value leaves behind in the process must not reach the other)
            alt = rng.choice([["--ctx", "crate::Other"], ["--derives", "Debug,Clone"], ["--derives", "Debug,Clone,PartialEq"], ["--derives", "Debug,Clone", "--ctx", "crate::Ctx"], []])
            if alt != settings_of(cfg):
                ops.append(["run2", rng.below(len(slots)), alt])
    if len(slots) >= 2 and rng.coin(150):
        # two grammars that are symbolic links to ONE shared file: compiled, then the shared file is edited through one of them
        xs = rng.sample(list(range(len(slots))), 2)
        ops.append(["edit", xs[0], "shared", rng.below(len(valid)), "now"])
        ops.append(["edit", xs[1], "shared", rng.below(len(valid)), "now"])
        ops.append(["run"])
        ops.append(["edit", xs[rng.below(2)], "shared", rng.below(len(valid)), rng.choice(["now", "old"])])
    if len(slots) >= 2 and rng.coin(250):
        # a failed run in the middle that got part of the way (one grammar changed and valid, another one broken), after
        # which the change is taken back and the broken grammar repaired: whatever the failed run left behind must not
        # reach the destinations of the run that follows
        xs = rng.sample(list(range(len(slots))), 2)
        ops.append(["run"])
        ops.append(["edit", xs[0], "valid", rng.below(len(valid)), "now"])
        ops.append(["edit", xs[1], rng.choice(["syntax", "semantic", "utf8"]), rng.below(8), "now"])
        ops.append(["run"])
        ops.append(["edit", xs[0], "revert", 0, "now"])
        ops.append(["edit", xs[1], rng.choice(["revert", "valid"]), rng.below(len(valid)), "now"])
    ops.append(["run"])
    cfg["ops"] = ops
    return cfg


class Scratch:
    """compile from scratch = the reference model (same interface, no history inside)."""

    def __init__(self, root):
        self.root = root
        self.cache = {}
        self.lock = threading.Lock()
        self.n = 0

    def get(self, text, prefix, fmt, entropy, settings=()):
        key = (text, prefix, fmt, entropy, tuple(settings))
        with self.lock:
            if key in self.cache:
                return self.cache[key]
            self.n += 1
            d = os.path.join(self.root, "s%06d" % self.n)
        os.makedirs(d)
        try:
            with open(os.path.join(d, "g.ebnf"), "wb") as f:
                f.write(text)
            argv = [sim_bin("driver"), "compile", "--file", os.path.join(d, "g.ebnf"), "--dest", os.path.join(d, "out.rs"), "--prefix", prefix] + list(settings)
            if fmt:
                argv.append("--format")
            c = run_child(argv, d, base_env(), entropy=entropy)
            _, marker, rest = split_driver_output(c.out)
            if c.crashed() or marker != "Ok":
                res = None
            else:
                res = open(os.path.join(d, "out.rs"), "rb").read()
        finally:
            shutil.rmtree(d, ignore_errors=True)
        with self.lock:
            self.cache[key] = res
        return res


def dest_of(cfg, d, s):
    rel = cfg["slots"][s]
    if cfg["mode"] == "file" and cfg["explicit_dest"]:
        return os.path.join(d, "outdir", "generated.rs")
    return os.path.join(d, rel[: -len(".ebnf")] + ".rs")


def snapshot(path):
    try:
        st = os.lstat(path)
    except FileNotFoundError:
        return None
    if not os.path.isfile(path):
        return ("notfile", 0)
    # a destination that is a symbolic link to a regular file: content and modification time of what it points to
    return (open(path, "rb").read(), os.stat(path).st_mtime_ns)


def remove_any(path):
    if os.path.islink(path) or os.path.isfile(path):
        os.unlink(path)
    elif os.path.isdir(path):
        shutil.rmtree(path)


def settings_of(cfg):
    a = []
    d = cfg.get("derives")
    if d is not None:
        a += ["--no-derives"] if not d else ["--derives", ",".join(d)]
    if cfg.get("ctx"):
        a += ["--ctx", cfg["ctx"]]
    return a


IGNORED_PRODUCTS = ("notes.rs", "grammar.rs", "UPPER.rs", "UPPER.RS")


def load_snap(snapdir, label, i):
    mt = open(os.path.join(snapdir, "%s.%d.mt" % (label, i))).read().strip()
    if mt == "absent":
        return None
    if mt == "notfile":
        return ("notfile", 0)
    return (open(os.path.join(snapdir, "%s.%d.bin" % (label, i)), "rb").read(), int(mt))


def execute_history(cfg, d, valid, scratch, stats=None):
    """Runs the history in directory d. Returns (violations, info).
    Two executors: every run a fresh child (default), or the whole history inside ONE process (cfg["one_process"]):
    file operations and Compile runs are then written into a script that `driver compile-script` executes, and the
    same judge looks at the snapshots it took."""
    fmt = cfg["format"]
    settings = settings_of(cfg)
    prefixes = PREFIXES_FORMAT if fmt else PREFIXES
    one_process = bool(cfg.get("one_process"))
    script = []
    slots = [Slot(r) for r in cfg["slots"]]
    prefix = ""
    dest_mtime = cfg.get("dest_mtime", SENTINEL_MTIME)

    def fs_write(path, data, mtime=None):
        if one_process:
            script.append("W\t%s\t%s" % (path, data.hex()))
            if mtime is not None:
                script.append("UT\t%s\t%d" % (path, mtime))
        else:
            os.makedirs(os.path.dirname(path), exist_ok=True)
            with open(path, "wb") as f:
                f.write(data)
            if mtime is not None:
                os.utime(path, (mtime, mtime))

    def fs_remove(path):
        if one_process:
            script.append("RM\t%s" % path)
        else:
            remove_any(path)

    os.makedirs(os.path.join(d, "outdir"), exist_ok=True)
    if cfg["mode"] == "dir":
        for sub in ("sub", "x", "y"):
            os.makedirs(os.path.join(d, "src", sub), exist_ok=True)
        with open(os.path.join(d, "src", "UPPER.EBNF"), "w") as f:
            f.write("@export A = ;;;\n")
        # files the directory walk must ignore
        with open(os.path.join(d, "src", "notes.txt"), "w") as f:
            f.write("not a grammar\n")
        with open(os.path.join(d, "src", "grammar.not_ebnf"), "w") as f:
            f.write("@export A = ;;;\n")
    events = []
    nrun = 0
    dests = [dest_of(cfg, d, s) for s in range(len(slots))]
    if cfg.get("dest_symlink") and not one_process:
        os.makedirs(os.path.join(d, "real_out"), exist_ok=True)
        for s, dp in enumerate(dests):
            os.makedirs(os.path.dirname(dp), exist_ok=True)
            os.symlink(os.path.join(d, "real_out", "s%d.rs" % s), dp)
    ignored = [os.path.join(d, "src", x) for x in IGNORED_PRODUCTS] if cfg["mode"] == "dir" else []
    for opi, op in enumerate(cfg["ops"]):
        if op[0] == "edit":
            sl = slots[op[1]]
            p = os.path.join(d, sl.rel)
            fs_remove(p)
            kind = op[2]
            if one_process and kind == "eio":
                kind = "utf8"  # injected I/O errors are per process; not used inside a one-process history
            sl.linked = False
            if kind == "revert":
                kind = "valid"
                sl.kind = kind
                hist = sl.valid_history
                sl.text = hist[-2] if len(hist) >= 2 else (hist[-1] if hist else valid[op[3] % len(valid)])
                sl.valid_history = hist + [sl.text]
            sl.kind = kind
            if kind == "valid" and op[2] == "revert":
                pass
            elif kind == "shared":
                sl.kind = kind = "valid"
                sl.linked = True
                sl.text = valid[op[3] % len(valid)]
                for other in slots:
                    if other.linked:
                        other.text = sl.text
            elif kind == "valid":
                sl.text = valid[op[3] % len(valid)]
                sl.valid_history.append(sl.text)
            elif kind == "syntax":
                pool_syn = INVALID_SYNTAX + tricky_invalid()
                sl.text = pool_syn[op[3] % len(pool_syn)]
            elif kind == "semantic":
                sl.text = INVALID_SEMANTIC[op[3] % len(INVALID_SEMANTIC)]
            elif kind == "utf8":
                sl.text = INVALID_UTF8[op[3] % len(INVALID_UTF8)]
            elif kind == "eio":
                sl.text = valid[op[3] % len(valid)]
            else:
                sl.text = None
            if kind == "dangling":
                if one_process:
                    script.append("LN\t%s\t%s" % (os.path.join(d, "nowhere.ebnf"), p))
                else:
                    os.symlink(os.path.join(d, "nowhere.ebnf"), p)
            elif kind == "is_dir":
                if one_process:
                    script.append("MKDIR\t%s" % p)
                else:
                    os.makedirs(p)
            elif sl.linked:
                mt = GRAMMAR_MTIMES.get(op[4] if len(op) > 4 else "now")
                if mt == "dest":
                    mt = dest_mtime
                common = os.path.join(d, "shared", "common.ebnf")
                fs_write(common, sl.text, mt)
                if one_process:
                    script.append("LN\t%s\t%s" % (common, p))
                else:
                    os.makedirs(os.path.dirname(p), exist_ok=True)
                    os.symlink(common, p)
            elif kind != "removed":
                mt = GRAMMAR_MTIMES.get(op[4] if len(op) > 4 else "now")
                if mt == "dest":
                    mt = dest_mtime
                fs_write(p, sl.text, mt)
            events.append(("change", "edit:%s%s" % ("shared" if sl.linked else kind, "" if len(op) < 5 or op[4] == "now" else "@" + op[4])))
        elif op[0] == "prefix":
            newp = prefixes[op[1] % len(prefixes)]
            events.append(("change" if newp != prefix else "nochange", "prefix"))
            prefix = newp
        elif op[0] == "delete":
            dp = dests[op[1]]
            existed = one_process or os.path.isfile(dp)
            if one_process:
                script.append("RM\t%s" % dp)
            elif existed:
                os.unlink(dp)
            events.append(("change" if existed else "nochange", "delete"))
        elif op[0] == "damage":
            dp = dests[op[1]]
            kindd, cut = op[2], op[3]
            if one_process:
                # needs the current content: expressed for the script as a fixed replacement (cut/crlf/bom fall back to foreign text)
                data = {"empty": b"", "binary": b"\x00\xff\xfe\x80 binary \x00" * 20}.get(kindd, b"// hand written file\npub struct Unrelated;\n")
                script.append("W\t%s\t%s" % (dp, data.hex()))
                events.append(("change", "damage:%s" % kindd))
            elif os.path.isfile(dp):
                old = open(dp, "rb").read()
                data = {"empty": b"", "cut": old[:cut], "binary": b"\x00\xff\xfe\x80 binary \x00" * 20,
                        "foreign": b"// hand written file\npub struct Unrelated;\n", "crlf": old.replace(b"\n", b"\r\n"), "bom": b"\xef\xbb\xbf" + old}[kindd]
                with open(dp, "wb") as f:
                    f.write(data)
                events.append(("change", "damage:%s" % kindd))
            else:
                events.append(("nochange", "damage:none"))
        elif op[0] == "run2":
            sl = slots[op[1]]
            if not one_process or sl.kind != "valid":
                continue
            lab = "x%d" % len([1 for k, _ in events if k == "run2"])
            dest2 = os.path.join(d, "outdir", "second_%s.rs" % lab)
            args2 = ["--file", os.path.join(d, sl.rel), "--dest", dest2, "--prefix", prefix] + list(op[2]) + (["--format"] if fmt else [])
            script.append("RUN\t%s\t%s" % (lab, "\t".join(a.replace("\n", "\\n") for a in args2)))
            script.append("SNAP\t%s_post\t%s" % (lab, dest2))
            events.append(("run2", {"opi": opi, "label": lab, "text": sl.text, "prefix": prefix, "settings": list(op[2])}))
        elif op[0] == "run":
            if cfg["mode"] == "file" and slots[0].kind == "absent":
                continue
            rec = {"opi": opi, "label": "r%d" % nrun, "prefix": prefix,
                   "kinds": [sl.kind for sl in slots], "texts": [sl.text for sl in slots]}
            nrun += 1
            # the same files are named differently from run to run (the child's working directory is the history directory)
            srng = Rng(derive(cfg.get("entropy", 0), "spelling", nrun))

            def spell(path):
                rel = os.path.relpath(path, d)
                return {"abs": path, "rel": rel, "dotrel": "./" + rel, "updown": "outdir/../" + rel}[srng.choice(["abs", "abs", "rel", "dotrel", "updown"])]

            if cfg["mode"] == "file":
                args = ["--file", spell(os.path.join(d, slots[0].rel))]
                if cfg["explicit_dest"]:
                    args += ["--dest", spell(dests[0])]
            else:
                args = ["--dir", spell(os.path.join(d, "src"))]
            args += ["--prefix", prefix] + settings
            if fmt:
                args.append("--format")
            if one_process:
                for dp in dests:
                    script.append("UT\t%s\t%d" % (dp, dest_mtime))
                script.append("SNAP\t%s_pre\t%s" % (rec["label"], "\t".join(dests)))
                script.append("RUN\t%s\t%s" % (rec["label"], "\t".join(a.replace("\n", "\\n") for a in args)))
                script.append("SNAP\t%s_post\t%s" % (rec["label"], "\t".join(dests + ignored)))
            else:
                before = {}
                for s, dp in enumerate(dests):
                    if os.path.isfile(dp):
                        os.utime(dp, (dest_mtime, dest_mtime))
                    before[s] = snapshot(dp)
                in_scope_now = [s for s in range(len(slots)) if slots[s].kind != "absent"]
                eio = [os.path.basename(slots[s].rel) for s in in_scope_now if slots[s].kind == "eio"]
                faults = ";".join("open:%s:1:e5" % b for b in eio) or None
                shim_log = os.path.join(d, "shim.log")
                if os.path.exists(shim_log):
                    os.unlink(shim_log)
                c = run_child([sim_bin("driver"), "compile"] + args, d, base_env(), entropy=cfg["entropy"], faults=faults, shim_log=shim_log)
                _, marker, rest = split_driver_output(c.out)
                if stats is not None and eio:
                    stats["eio_fired"] += sum(1 for l in c.shim_log if "errno 5" in l)
                rec.update({"before": before, "after": {s: snapshot(dp) for s, dp in enumerate(dests)},
                            "marker": marker if not c.crashed() else "crash", "rest": rest,
                            "crash_detail": "Compile child %s: %s" % (c.status_word(), c.err[-300:].decode(errors="replace")),
                            "ignored_present": [os.path.basename(x) for x in ignored if os.path.exists(x)]})
            events.append(("run", rec))
    if one_process:
        sp = os.path.join(d, "history.script")
        with open(sp, "w") as f:
            f.write("\n".join(script) + "\n")
        snapdir = os.path.join(d, "snap")
        c = run_child([sim_bin("driver"), "compile-script", sp, snapdir], d, base_env(), entropy=cfg["entropy"], timeout=120)
        results = {}
        for line in c.out.decode(errors="replace").splitlines():
            f = line.split("\t")
            if f[0] == "RESULT":
                results[f[1]] = (f[2], (f[3] if len(f) > 3 else ""))
        for kind, rec in events:
            if kind == "run2":
                lab = rec["label"]
                if lab in results and os.path.exists(os.path.join(snapdir, "%s_post.0.mt" % lab)):
                    rec["marker"] = results[lab][0]
                    rec["after"] = load_snap(snapdir, lab + "_post", 0)
                else:
                    rec["marker"] = "crash"
                    rec["crash_detail"] = "one-process history died (%s) before the second Compile value finished: %s" % (c.status_word(), c.err[-300:].decode(errors="replace"))
                continue
            if kind != "run":
                continue
            lab = rec["label"]
            if lab not in results or not os.path.exists(os.path.join(snapdir, "%s_post.0.mt" % lab)):
                rec.update({"marker": "crash", "crash_detail": "one-process history died (%s) before this run finished: %s" % (c.status_word(), c.err[-300:].decode(errors="replace")),
                            "before": {}, "after": {}, "rest": b"", "ignored_present": []})
                continue
            rec["marker"], rest = results[lab]
            rec["rest"] = rest.encode()
            rec["crash_detail"] = ""
            rec["before"] = {s: load_snap(snapdir, lab + "_pre", s) for s in range(len(dests))}
            rec["after"] = {s: load_snap(snapdir, lab + "_post", s) for s in range(len(dests))}
            rec["ignored_present"] = [os.path.basename(x) for k, x in enumerate(ignored) if load_snap(snapdir, lab + "_post", len(dests) + k) is not None]

    # ---------------------------------------------------------------- judge, run by run
    viol = []
    runs_ok = 0
    runs_err = 0
    changed_since_ok = True
    trace = []
    for kind, rec in events:
        if kind in ("change", "nochange"):
            if kind == "change":
                changed_since_ok = True
            trace.append(rec)
            continue
        if kind == "run2":
            trace.append("run2:" + rec["marker"])
            exp2 = scratch.get(rec["text"], rec["prefix"], fmt, cfg["entropy"], rec["settings"])
            base = {"op": rec["opi"], "slot": None, "prefix": rec["prefix"], "changed_since_last_ok": True}
            if rec["marker"] not in ("Ok", "Err"):
                viol.append(dict(base, **{"class": "crash", "detail": rec.get("crash_detail", "")}))
            elif rec["marker"] == "Ok" and exp2 is None:
                viol.append(dict(base, **{"class": "failing-run-returned-ok", "detail": "second Compile value (%s): invalid under its settings but run returned Ok" % " ".join(rec["settings"])}))
            elif rec["marker"] == "Ok" and (rec["after"] is None or rec["after"][0] != exp2):
                viol.append(dict(base, **{"class": "wrong-after-ok", "detail": "second Compile value in the process (%s): run returned Ok but its destination differs from compile-from-scratch with its settings" % " ".join(rec["settings"])}))
            elif rec["marker"] == "Err" and exp2 is not None:
                viol.append(dict(base, **{"class": "valid-run-returned-err", "detail": "second Compile value (%s): valid grammar but run returned Err" % " ".join(rec["settings"])}))
            continue
        kinds, texts, rprefix, before, after = rec["kinds"], rec["texts"], rec["prefix"], rec["before"], rec["after"]
        in_scope = [s for s in range(len(kinds)) if kinds[s] != "absent" and not (cfg["mode"] == "dir" and kinds[s] == "removed")]

        def v(cls, s, detail, rec=rec):
            viol.append({"class": cls, "op": rec["opi"], "slot": s, "detail": detail, "prefix": rec["prefix"],
                         "changed_since_last_ok": changed_since_ok})

        for ign in rec["ignored_present"]:
            v("ignored-file-compiled", None, "the directory walk produced %s from a file that is not *.ebnf" % ign)
        if rec["marker"] not in ("Ok", "Err"):
            v("crash", None, rec["crash_detail"])
            trace.append("run:crash")
            continue
        expected = {}
        fresh = {}
        rejected_by_settings = set()
        for s in in_scope:
            if kinds[s] == "valid":
                expected[s] = scratch.get(texts[s], rprefix, fmt, cfg["entropy"], settings)
                if expected[s] is None:
                    if not settings:
                        raise HarnessError("reference compile of a pool grammar failed")
                    # e.g. @memoize with an empty derive set: invalid under this history's settings
                    rejected_by_settings.add(s)
                    continue
                fresh[s] = before.get(s) is not None and before[s][0] == expected[s]
        failing = [s for s in in_scope if kinds[s] != "valid" or s in rejected_by_settings]

        def why(s):
            return "rejected under the history's settings" if s in rejected_by_settings else kinds[s]

        if rec["marker"] == "Ok":
            runs_ok += 1
            trace.append("run:ok" + ("*" if changed_since_ok else ""))
            if failing:
                v("failing-run-returned-ok", failing[0], "grammar state %s but Compile::run returned Ok" % why(failing[0]))
            for s in in_scope:
                if kinds[s] != "valid" or s in rejected_by_settings:
                    continue
                a = after.get(s)
                if a is None or a[0] == "notfile":
                    v("missing-after-ok", s, "run returned Ok but the destination does not exist")
                    continue
                if a[0] != expected[s]:
                    stale = before.get(s) is not None and a[0] == before[s][0]
                    v("stale-after-ok" if stale else "wrong-after-ok", s,
                      "run returned Ok but the destination differs from compile-from-scratch (%s)" % ("old file kept" if stale else "new content is wrong"))
                    continue
                header, tail = procsim.split_header(a[0])
                if crc32_hex(texts[s]).encode() not in header.lower():
                    v("header-mismatch", s, "destination header does not carry the CRC-32 of the current grammar")
                elif not fmt and not tail.startswith(b"\n" + rprefix.encode() + b"\n"):
                    v("header-mismatch", s, "destination does not continue with the prefix after the header")
                if fresh.get(s) and a[1] != before[s][1]:
                    v("touched-when-fresh", s, "destination was already the compilation of the same grammar, prefix and library but was rewritten")
            if not failing:
                changed_since_ok = False
        else:
            runs_err += 1
            trace.append("run:err")
            if not failing:
                v("valid-run-failed", None, "all grammars valid and readable but Compile::run returned Err: %s" % rec["rest"][:200].decode(errors="replace"))
            for s in failing:
                if after.get(s) != before.get(s):
                    v("failing-run-modified-destination", s, "run failed on this grammar (%s) but its destination changed" % why(s))
            for s in in_scope:
                if kinds[s] == "valid" and s not in rejected_by_settings and after.get(s) != before.get(s):
                    # directory mode stops at the first error in read_dir order: other grammars are unchanged or fresh
                    if after.get(s) is None or after[s][0] != expected[s]:
                        v("failing-run-corrupted-other-destination", s, "a valid grammar's destination is neither unchanged nor the fresh compilation")
    return viol, {"runs_ok": runs_ok, "runs_err": runs_err, "trace": trace}


def run(tier, seed, replay_path=None):
    t0 = time.time()
    valid = valid_pool()
    d = run_dir("c18")
    try:
        scratch = Scratch(os.path.join(d, "scratch"))
        os.makedirs(scratch.root)
        if replay_path:
            return replay(replay_path, d, valid, scratch)
        n = int(os.environ.get("VERIF_NSIMS", {"quick": 400, "thorough": 20000}[tier]))
        stats = {"eio_fired": 0}
        results = [None] * n

        def one(i):
            cfg = gen_history(seed, i, valid, tier)
            hd = os.path.join(d, "h%06d" % i)
            os.makedirs(hd)
            try:
                return cfg, execute_history(cfg, hd, valid, scratch, stats)
            finally:
                shutil.rmtree(hd, ignore_errors=True)

        with ThreadPoolExecutor(NCPU) as ex:
            for i, r in enumerate(ex.map(one, range(n))):
                results[i] = r
        # determinism self-test: the first histories once more; traces and violations must be identical
        nself = min(n, 12 if tier == "quick" else 60)
        diffs = 0
        for i in range(nself):
            cfg2, (viol2, info2) = one(i)
            if (viol2, info2["trace"]) != (results[i][1][0], results[i][1][1]["trace"]):
                diffs += 1
        if diffs:
            raise HarnessError("determinism self-test: %d of %d histories differed between two executions" % (diffs, nself))
        beyond = crash_observations(seed, 40 if tier == "quick" else 600, d, valid, scratch)
        known = [f for f in load_known_findings().get("findings", []) if f.get("property") == "C18"]
        known_hit = {}
        classes = {}
        nontrivial = set()
        with_ok = 0
        total_runs = 0
        op_counts = {}
        samples = []
        reported = []
        for cfg, (viol, info) in results:
            total_runs += info["runs_ok"] + info["runs_err"]
            if info["runs_ok"]:
                with_ok += 1
            for t in info["trace"]:
                op_counts[t] = op_counts.get(t, 0) + 1
            if any(t == "run:ok*" for t in info["trace"][1:]) and info["runs_ok"] >= 1:
                nontrivial.add((cfg["mode"], cfg["format"], cfg["explicit_dest"], cfg.get("one_process", False), tuple(info["trace"])))
            if len(samples) < 3 and info["runs_ok"] >= 2 and info["runs_err"] >= 1:
                samples.append({"history": cfg["id"], "mode": cfg["mode"], "format": cfg["format"], "explicit_destination": cfg["explicit_dest"], "one_process": cfg.get("one_process", False),
                                "slots": cfg["slots"], "operations": info["trace"]})
            for v in viol:
                classes[v["class"]] = classes.get(v["class"], 0) + 1
                kf = match_known(known, cfg, v)
                if kf:
                    known_hit.setdefault(kf["id"], kf)
                else:
                    reported.append((cfg, v))
        for kid, kf in sorted(known_hit.items()):
            log("KNOWN-FINDING: property=C18 %s: %s" % (kid, kf["what"]))
        nviol = 0
        seen_classes = set()
        for cfg, v in reported:
            key = (v["class"], cfg["mode"], cfg["format"])
            if key in seen_classes:
                continue
            seen_classes.add(key)
            nviol += 1
            if nviol > 6:
                continue
            mcfg = minimise(cfg, v["class"], d, valid, scratch)
            hd = os.path.join(d, "final%d" % nviol)
            os.makedirs(hd)
            mv, minfo = execute_history(mcfg, hd, valid, scratch)
            shutil.rmtree(hd, ignore_errors=True)
            first = next((x for x in mv if x["class"] == v["class"]), v)
            path = write_replay("C18", "%d-%d-%s-%s" % (seed, cfg["id"], v["class"], short_hash(mcfg)), {
                "property": "C18", "seed": seed, "class": v["class"], "history": describe(mcfg, valid), "config": mcfg,
                "violation": first, "operations": minfo["trace"], "unminimised_config": cfg,
                "note": "replay: ./check C18 --replay <this file> re-executes the history in a fresh directory"})
            log("VIOLATION property=C18 replay=%s" % path)
            log("  %s (%s mode%s): %s" % (v["class"], cfg["mode"], ", format" if cfg["format"] else "", first["detail"]))
        wall = time.time() - t0
        if with_ok * 2 < n:
            raise HarnessError("fewer than half of the histories had a successful run (%d of %d)" % (with_ok, n))
        coverage = {
            "evaluations": n,
            "distinct_nontrivial": len(nontrivial),
            "rule": ("one evaluation = one history of 5..20 operations from {edit grammar (valid / syntax error / restriction violation / invalid UTF-8 / removed / dangling symlink / "
                     "directory / EIO on open), change prefix, delete destination, run} executed against the real Compile in a fresh directory, every run a fresh child under the shim; "
                     "after each run the destinations are compared byte- and mtime-exactly with a compile-from-scratch reference. distinct = distinct (mode, format, explicit destination, "
                     "operation-class sequence); non-trivial = contains a successful run that was preceded by a state change since the previous successful run"),
            "samples": samples,
            "compile_runs": total_runs,
            "reference_compiles": scratch.n,
            "histories_with_successful_run": with_ok,
            "one_process_histories": sum(1 for cfg, _ in results if cfg.get("one_process")),
            "symlinked_destination_histories": sum(1 for cfg, _ in results if cfg.get("dest_symlink")),
            "second_compile_value_runs": sum(n for t, n in op_counts.items() if isinstance(t, str) and t.startswith("run2:")),
            "operation_counts": op_counts,
            "violation_classes_seen": classes,
            "faults_fired": {"EIO_on_grammar_open": stats["eio_fired"],
                             "unreadable_or_invalid_grammar_edits": sum(c for k, c in op_counts.items() if k.startswith("edit:") and not k.startswith("edit:valid")),
                             "grammar_mtime_skewed_edits": sum(c for k, c in op_counts.items() if "@" in k)},
            "runs_per_hour": int(n / max(wall, 1e-6) * 3600),
            "known_findings_hit": sorted(known_hit),
            "beyond_statement": dict(beyond, note="observations only, never a violation: the statement restricts failing runs to an unreadable or invalid grammar; process death / ENOSPC / EIO during the destination write are outside it"),
            "determinism_selftest": {"histories_run_twice": nself, "differences": 0},
            "real_components": ["peginator_codegen::Compile from the working tree (driver compile)", "rustfmt (format histories)", "kernel file system"],
            "stubbed_components": ["EIO on open of a grammar is injected by the shim", "entropy of every child is seeded", "file timestamps are simulated state: destinations get a seeded sentinel mtime (2001 or 2040) before every run, edited grammars a seeded mtime (now, 1990, 2041, same as destination)"],
        }
        write_evidence("C18", tier, seed, "exploration", coverage, wall, nviol, [
            "reference model = the same Compile invocation into an empty directory (relies on C16: code generation is deterministic)",
            "'left untouched' is judged by bytes and mtime (sentinel set before each run)",
            "directory mode: read_dir order is the file system's; on a failing run destinations of other grammars may be unchanged or fresh",
        ])
        if nviol:
            return 1
        log("C18 %s: %d histories, %d distinct non-trivial, %d Compile runs, %d known findings, 0 violations (%.1fs)" % (tier, n, len(nontrivial), total_runs, len(known_hit), wall))
        return 0
    finally:
        cleanup_run_dir(d)


def crash_observations(seed, n, d, valid, scratch):
    """Beyond the statement (never a violation): process death in the middle of the destination write, ENOSPC, short
    write; then an ordinary run. Observed: what the fault left behind and whether the next run repairs it."""
    obs = {"histories": 0, "faults_fired": {}, "after_fault": {}, "after_next_run": {}}
    for i in range(n):
        rng = Rng(derive(seed, "c18-crash", i))
        hd = os.path.join(d, "crash%04d" % i)
        os.makedirs(hd)
        try:
            g0, g1 = valid[rng.below(len(valid))], valid[rng.below(len(valid))]
            prefix = rng.choice(["", "use a;"])
            gp, dp = os.path.join(hd, "g.ebnf"), os.path.join(hd, "g.rs")
            argv = [sim_bin("driver"), "compile", "--file", gp, "--prefix", prefix]
            ent = rng.below(1 << 60)
            with open(gp, "wb") as f:
                f.write(g0)
            run_child(argv, hd, base_env(), entropy=ent)
            old = snapshot(dp)
            with open(gp, "wb") as f:
                f.write(g1)
            want = scratch.get(g1, prefix, False, ent, ())
            hdr = len(want) - len(want.split(b"\n", 5)[-1]) if want else 200
            kind = rng.choice(["die_in_header", "die_after_header", "die_in_code", "enospc", "eio", "short_then_die"])
            k = {"die_in_header": rng.range(1, max(hdr - 2, 2)), "die_after_header": hdr, "die_in_code": hdr + rng.range(1, 2000), "short_then_die": rng.range(1, 4000)}.get(kind, 0)
            faults = {"enospc": "write:g.rs:1:e28", "eio": "write:g.rs:1:e5"}.get(kind, "write:g.rs:1:die%d" % k)
            log_p = os.path.join(hd, "shim.log")
            c = run_child(argv, hd, base_env(), entropy=ent, faults=faults, shim_log=log_p)
            fired = any("->" in l for l in c.shim_log)
            obs["histories"] += 1
            if fired:
                obs["faults_fired"][kind] = obs["faults_fired"].get(kind, 0) + 1
            mid = snapshot(dp)
            state = "absent" if mid is None else "old file intact" if old and mid[0] == old[0] else "complete new file" if mid[0] == want else "empty file" if not mid[0] else "torn file with complete header" if want and mid[0].startswith(want[:hdr]) else "torn file, header incomplete"
            key = "%s: %s (%s)" % (kind, state, c.status_word())
            obs["after_fault"][key] = obs["after_fault"].get(key, 0) + 1
            c2 = run_child(argv, hd, base_env(), entropy=ent)
            _, marker, _ = split_driver_output(c2.out)
            fin = snapshot(dp)
            res = "%s: next run %s, destination %s" % (state, marker, "equals compile-from-scratch" if fin and fin[0] == want else "DIFFERS from compile-from-scratch")
            obs["after_next_run"][res] = obs["after_next_run"].get(res, 0) + 1
        finally:
            shutil.rmtree(hd, ignore_errors=True)
    return obs


def match_known(known, cfg, v):
    for kf in known:
        if kf.get("class") != v["class"]:
            continue
        if "format" in kf and kf["format"] != cfg["format"]:
            continue
        return kf
    return None


def describe(cfg, valid):
    out = []
    prefixes = PREFIXES_FORMAT if cfg["format"] else PREFIXES
    for op in cfg["ops"]:
        if op[0] == "edit":
            out.append("edit %s -> %s #%d (mtime %s)" % (cfg["slots"][op[1]], op[2], op[3], op[4] if len(op) > 4 else "now"))
        elif op[0] == "prefix":
            out.append("prefix %r" % prefixes[op[1] % len(prefixes)])
        elif op[0] == "delete":
            out.append("delete destination of %s" % cfg["slots"][op[1]])
        elif op[0] == "damage":
            out.append("replace destination of %s by: %s" % (cfg["slots"][op[1]], op[2]))
        else:
            out.append("run")
    return out


def minimise(cfg, cls, d, valid, scratch, budget=60):
    best = json.loads(json.dumps(cfg))
    used = 0
    changed = True
    k = 0
    while changed and used < budget:
        changed = False
        for i in range(len(best["ops"]) - 1, -1, -1):
            if used >= budget:
                break
            cand = json.loads(json.dumps(best))
            del cand["ops"][i]
            if not any(o[0] == "run" for o in cand["ops"]):
                continue
            k += 1
            hd = os.path.join(d, "min%04d" % k)
            os.makedirs(hd)
            used += 1
            try:
                viol, _ = execute_history(cand, hd, valid, scratch)
            finally:
                shutil.rmtree(hd, ignore_errors=True)
            if any(x["class"] == cls for x in viol):
                best, changed = cand, True
    return best


def replay(path, d, valid, scratch):
    r = json.load(open(path))
    cfg = r["config"]
    hd = os.path.join(d, "replay")
    os.makedirs(hd)
    viol, info = execute_history(cfg, hd, valid, scratch)
    for line in describe(cfg, valid):
        log("  op: " + line)
    log("  trace: " + " ".join(info["trace"]))
    same = [v for v in viol if v["class"] == r["class"]]
    if same:
        log("  %s: %s" % (same[0]["class"], same[0]["detail"]))
        log("VIOLATION property=C18 replay=%s" % path)
        return 1
    log("replay: no %s violation any more" % r["class"])
    return 0
