"""Dispatcher for all checks.  Exit codes: 0 held, 1 violation, 2 harness error."""
import os
import sys
import time
import traceback

sys.path.insert(0, os.path.dirname(os.path.abspath(__file__)))
import common
from common import HarnessError, log


def usage():
    log("usage: check <C05|C15|C16|C18|C20|setup> <quick|thorough>  |  check <id> --replay <file>")
    return 2


def main(argv):
    if len(argv) < 2:
        return usage()
    what = argv[1]
    seed = common.get_seed()
    tier = os.environ.get("VERIF_TIER") or "quick"
    replay = None
    if len(argv) >= 3:
        if argv[2] == "--replay":
            if len(argv) < 4:
                return usage()
            replay = argv[3]
        else:
            tier = argv[2]
    if tier not in ("quick", "thorough"):
        return usage()
    log("VERIF_SEED=%d tier=%s check=%s" % (seed, tier, what))
    try:
        common.build_shim()
        if what == "setup":
            t = common.build_sim(("simtools", "miri_threads"))
            log("built sim workspace in %.1fs" % t)
            t = common.build_cli() + common.build_cli(release=True)
            log("built peginator-cli (dev and release profile) in %.1fs" % t)
            import c16
            import mirisched
            m = c16.macro_route_check(seed, "quick")
            log("macro_route: %s" % m.get("status"))
            p = mirisched.run_miri("-Zmiri-seed=1 -Zmiri-disable-isolation", [1, 2], 3600)
            log("miri warm-up: rc=%d" % p.returncode)
            if p.returncode != 0:
                log(p.stderr.decode(errors="replace")[-2000:])
                return 2
            return 0
        if what in ("C05", "C20"):
            common.build_sim(("simtools",))
            import parsesim
            if replay and what == "C20":
                import json
                if str(json.load(open(replay)).get("kind", "")).startswith("miri:"):
                    import mirisched
                    return mirisched.run(tier, seed, replay)
            rc = parsesim.run_check(what, tier, seed, replay)
            if what == "C20" and rc == 0 and not replay:
                import mirisched
                rc = mirisched.run(tier, seed)
            return rc
        if what in ("C15", "C16", "C18"):
            common.build_sim(("simtools",))
            common.build_cli()
            if what == "C16":
                common.build_cli(release=True)
            import procsim
            return procsim.run_check(what, tier, seed, replay)
        return usage()
    except HarnessError as e:
        log("HARNESS ERROR: %s" % e)
        return 2
    except Exception:
        traceback.print_exc()
        log("HARNESS ERROR: unexpected exception in the orchestrator")
        return 2


if __name__ == "__main__":
    sys.exit(main(sys.argv))
