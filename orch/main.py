"""Dispatcher for all checks.  Exit codes: 0 held, 1 violation, 2 harness error."""
import os
import sys
import time
import traceback

sys.path.insert(0, os.path.dirname(os.path.abspath(__file__)))
import common
from common import HarnessError, log


def usage():
    log("usage: check <C05|C15|C16|C18|C20|setup> <quick|thorough>  |  check <id> --replay <file>")
    return 2


def main(argv):
    if len(argv) < 2:
        return usage()
    what = argv[1]
    seed = common.get_seed()
    tier = os.environ.get("VERIF_TIER") or "quick"
    replay = None
    if len(argv) >= 3:
        if argv[2] == "--replay":
            if len(argv) < 4:
                return usage()
            replay = argv[3]
        else:
            tier = argv[2]
    if tier not in ("quick", "thorough"):
        return usage()
    log("VERIF_SEED=%d tier=%s check=%s" % (seed, tier, what))
    try:
        common.build_shim()
        if what == "setup":
            t = common.build_sim(("simtools",))
            log("built sim workspace in %.1fs" % t)
            t = common.build_cli()
            log("built peginator-cli in %.1fs" % t)
            return 0
        if what in ("C05", "C20"):
            common.build_sim(("simtools",))
            import parsesim
            rc = parsesim.run_check(what, tier, seed, replay)
            if what == "C20" and rc == 0 and not replay:
                import mirisched
                rc = mirisched.run(tier, seed)
            return rc
        if what in ("C15", "C16", "C18"):
            common.build_sim(("simtools",))
            common.build_cli()
            import procsim
            return procsim.run_check(what, tier, seed, replay)
        return usage()
    except HarnessError as e:
        log("HARNESS ERROR: %s" % e)
        return 2
    except Exception:
        traceback.print_exc()
        log("HARNESS ERROR: unexpected exception in the orchestrator")
        return 2


if __name__ == "__main__":
    sys.exit(main(sys.argv))
