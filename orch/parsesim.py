"""parse-sim orchestrator (C05, C20): generates simulation plans from the seed, runs each
in a fresh sim-worker process under the simulated libc boundary, compares every job
with its isolated-process oracle, minimises and replays failures, writes evidence."""
import json
import os
import subprocess
import time
from concurrent.futures import ThreadPoolExecutor

from common import (discovered_env_reads, discovered_env_value, LAUNCH, NCPU, HarnessError, Rng, cleanup_run_dir, derive, log, run_dir, shim_env,
                    short_hash, sim_bin, write_evidence, write_replay, VERIF)

SIM_TIMEOUT_S = 25
ORACLE_TIMEOUT_S = 30
# "slow" is not "no result": whatever is silent for the ordinary budget gets this much once more before it is judged
# (a loaded machine, a grammar that is quadratic on the generated input)
LONG_TIMEOUT_S = 300


def entry_class(entry):
    # "sim@<sel>": the entry point with the ParseSettings knobs of the working tree turned by selector <sel>
    base, _, sel = entry.partition("@")
    cls = "noop" if base in ("parse", "noop") else base
    return cls + ("@" + sel if sel and base != "parse" else "")


def noop_class(entry):
    """The tracer-free class of an entry, with the same settings selector."""
    base, _, sel = entry.partition("@")
    return "noop" + ("@" + sel if sel and base != "parse" else "")


PAD_MARK = "\x00\x00PAD="


def job_key(job, cls=None):
    # a padded job (volume probe) is another input than its head alone: the padding is part of the key
    inp = job["input"] + (PAD_MARK + str(job["pad_to"]) if job.get("pad_to") else "")
    return (job["variant"], job["rule"], inp, tuple(job.get("ctx", [0, 0])), cls or entry_class(job["entry"]))


def key_input(k):
    """(input, pad_to) of an oracle key."""
    i = k[2].rfind(PAD_MARK)
    if i >= 0 and k[2][i + len(PAD_MARK):].isdigit():
        return k[2][:i], int(k[2][i + len(PAD_MARK):])
    return k[2], 0


def truncate_utf8(s, nbytes):
    b = s.encode()
    if len(b) <= nbytes:
        return s
    b = b[:nbytes]
    while True:
        try:
            return b.decode()
        except UnicodeDecodeError:
            b = b[:-1]


class ParseSim:
    def __init__(self, seed, tier):
        self.seed = seed
        self.tier = tier
        self.worker = sim_bin("sim-worker")
        p = subprocess.run([self.worker, "list"], capture_output=True)
        if p.returncode != 0:
            raise HarnessError("sim-worker list failed: " + p.stderr.decode(errors="replace"))
        self.variants = json.loads(p.stdout)
        p = subprocess.run([self.worker, "knobs"], capture_output=True)
        if p.returncode != 0:
            raise HarnessError("sim-worker knobs failed: " + p.stderr.decode(errors="replace"))
        # knobs of ParseSettings found in the working tree (none on a tree whose ParseSettings is empty)
        self.knobs = json.loads(p.stdout)
        self.by_name = {v["name"]: v for v in self.variants}
        corpus = json.load(open(os.path.join(VERIF, "corpus", "corpus.json")))
        self.grammars = {g["name"]: g for g in corpus["grammars"]}
        self.by_grammar = {}
        for v in self.variants:
            self.by_grammar.setdefault(v["grammar"], []).append(v)
        self.iso = {}
        self.no_result = []
        self.oracle_spawns = 0
        self.slow_oracle_jobs = 0
        self.long_retries_left = 32

    # ---------------------------------------------------------------- inputs
    def gen_input(self, rng, gname):
        g = self.grammars[gname]
        if "long" in g and rng.coin(120):
            # medium length (beyond small-input thresholds such as 64 bytes), made of valid items
            return self.gen_long_input(rng, gname, [70, 130, 300])
        chars = list(rng.choice(g["sentences"]))
        nmut = rng.weighted([(0, 40), (1, 30), (2, 20), (3, 10)])
        for _ in range(nmut):
            op = rng.below(5)
            if op == 0 and chars:
                del chars[rng.below(len(chars))]
            elif op == 1 and chars:
                i = rng.below(len(chars))
                chars.insert(i, chars[i])
            elif op == 2 and len(chars) > 1:
                i = rng.below(len(chars) - 1)
                chars[i], chars[i + 1] = chars[i + 1], chars[i]
            elif op == 3:
                chars.insert(rng.below(len(chars) + 1), rng.choice(g["tokens"]))
            elif chars:
                chars[rng.below(len(chars))] = rng.choice(g["tokens"])
        if not g.get("custom_ws") and rng.coin(120):
            # a run of 8..20 blank-like characters (real whitespace and control characters that are not) at a seeded place
            run = "".join(rng.choice([" ", " ", " ", "\t", "\n", "\r", "\x0c", "\x0b", "\x00", "\x1f", "\u00a0", "\u2003", "\u2028", "\u3000", "\u0085"]) for _ in range(rng.range(8, 20)))
            pos = rng.below(len(chars) + 1)
            return self.clamp(g, "".join(chars[:pos]) + run + "".join(chars[pos:]), limit=64)
        return self.clamp(g, "".join(chars))

    def clamp(self, g, s, limit=40):
        s = truncate_utf8(s, limit)
        mr = g.get("max_run")
        if mr:
            out = []
            run = 0
            for c in s:
                run = run + 1 if c == "a" else 0
                if run <= mr:
                    out.append(c)
            s = "".join(out)
        return s

    def gen_deep_input(self, rng, gname):
        """Deeply nested sentence (not clamped to 40 bytes): resource budgets shared between parses show here."""
        dp = self.grammars[gname]["deep"]
        n = rng.choice([30, 60, 100, 150, 200, 250])
        s = dp["prefix"] + dp["open"] * n + dp["core"] + dp["close"] * (n if rng.coin(850) else n - 1) + dp["suffix"]
        return s

    def gen_long_input(self, rng, gname, targets=(4200, 9000, 70000, 100000, 140000, 200000)):
        """Input of 4..200 KB made of valid items: offsets beyond 2^12 / 2^16 (cache keys, positions) are reached."""
        lg = self.grammars[gname]["long"]
        target = rng.choice(list(targets))
        parts = []
        size = 0
        while size < target:
            it = rng.choice(lg["items"])
            parts.append(it)
            size += len(it.encode()) + len(lg["sep"])
        return lg["prefix"] + lg["sep"].join(parts) + (rng.choice(lg["suffixes"]) if "suffixes" in lg else lg["suffix"])

    def related_input(self, rng, gname, prev):
        g = self.grammars[gname]
        k = rng.below(7)
        chars = list(prev)
        if k == 0 or not chars:
            return prev
        if k == 6:
            # same length, only the tail differs (the last alphanumeric character is replaced by another one)
            for i in range(len(chars) - 1, max(len(chars) - 8, -1), -1):
                if chars[i].isascii() and chars[i].isalnum():
                    chars[i] = rng.choice([c for c in "abxyz1289" if c != chars[i] and c.isdigit() == chars[i].isdigit()])
                    return "".join(chars)
            return prev
        if k == 5:
            # same length in BYTES, different text: two ASCII characters become one two-byte character or vice versa
            for _ in range(8):
                i = rng.below(len(chars))
                if i + 1 < len(chars) and ord(chars[i]) < 128 and ord(chars[i + 1]) < 128:
                    return "".join(chars[:i] + [rng.choice(["\u00e9", "\u0151", "\u00df"])] + chars[i + 2:])
                if 0x80 <= ord(chars[i]) < 0x800:
                    return "".join(chars[:i] + [rng.choice(["ab", "x1", "  "])] + chars[i + 1:])
            return prev
        if k == 1:
            return "".join(chars[: rng.below(len(chars) + 1)])
        lim = max(40, len(prev.encode()))
        if k == 2:
            i = len(chars) // 2 + rng.below(len(chars) - len(chars) // 2)
            chars[i] = rng.choice(g["tokens"])
            return self.clamp(g, "".join(chars), limit=lim)
        if k == 3:
            return self.clamp(g, prev + rng.choice(g["tokens"]), limit=lim + 8)
        return self.gen_input(rng, gname)

    def gen_ctx(self, rng, v):
        if v["ctx"]:
            return [rng.below(100), rng.below(7)]
        return [0, 0]

    # ---------------------------------------------------------------- policies
    def gen_policy(self, rng, ntasks, est_steps, variants):
        est = max(est_steps, 20)
        kind = rng.weighted([("random", 35), ("pct", 20), ("rtc", 15), ("stall", 10), ("targeted", 20)])
        if kind == "random":
            return {"kind": "random", "switch_permille": rng.choice([20, 100, 300, 500, 900])}
        if kind == "pct":
            d = rng.below(4)
            return {"kind": "pct", "change_points": sorted(rng.below(est) for _ in range(d))}
        if kind == "rtc":
            k = rng.range(1, 6)
            return {"kind": "rtc", "preempt_steps": sorted(rng.below(est) for _ in range(k))}
        if kind == "stall":
            a = rng.below(est)
            return {"kind": "stall", "victim": rng.below(ntasks), "from": a, "until": a + rng.range(10, est),
                    "switch_permille": rng.choice([100, 300, 500])}
        targets = []
        memo = sorted({r for v in variants for r in self.by_name[v]["memoized"]})
        pool = [["hook", ""], ["info", ""], ["err", ""], ["ok", ""], ["start", ""]] + [["ok", r] for r in memo] + [["err", r] for r in memo]
        for _ in range(rng.range(1, 3)):
            targets.append(rng.choice(pool))
        return {"kind": "targeted", "targets": targets, "permille": rng.choice([500, 800, 1000]),
                "switch_permille": rng.choice([0, 50, 200])}

    # ---------------------------------------------------------------- plans
    def many_parses_tasks(self, rng, gnames, memo_only=False):
        """A long-lived thread: several hundred parses of one variant on one thread (counters, generation stamps and
        pools that wrap or fill up only after hundreds or 2^16 uses)."""
        # a long-lived thread: several hundred parses of one variant on one thread (counters, generation stamps and
        # pools that wrap or fill up only after hundreds of uses), most of them short, a long one now and then
        # (the re-entrancy pairs start a helper thread per parse: tens of thousands of them do not fit a simulation's time budget)
        g = rng.choice(sorted(n for n in gnames if not self.grammars[n]["ctx"] and not self.grammars[n].get("max_run") and not n.startswith("reent_")
                              and (not memo_only or any(v["mask"] for v in self.by_grammar[n]))))
        full = max(self.by_grammar[g], key=lambda v: v["mask"])
        v = full if rng.coin(700) else rng.choice(self.by_grammar[g])
        q = []
        pool_inputs = sorted({self.gen_input(rng, g) for _ in range(60)}, key=lambda x: (len(x), x))
        short = [x for x in pool_inputs if len(x) <= 8] or [""]
        shortest_sentences = sorted(self.grammars[g]["sentences"], key=lambda x: (len(x), x))[1:4]
        total = rng.range(300, 620)
        if rng.coin(500):
            # random mix
            for k in range(total):
                inp = rng.choice(pool_inputs) if rng.coin(150) else rng.choice(short)
                q.append(inp)
        else:
            # wrap-around probe: the longest input first, then only short inputs, and around the 254th..258th parse
            # (where 8-bit counters and stamps wrap) inputs of strictly increasing length, so that each of them reads
            # positions that nobody has touched since the very first parse
            longs = pool_inputs[-8:]
            q.append(longs[-1])
            filler = shortest_sentences if rng.coin(700) else short
            probes = {253 + j: longs[j] for j in range(min(6, len(longs) - 1))}
            for k in range(1, 270):
                q.append(probes[k] if k in probes else rng.choice(filler))
            if rng.coin(350):
                # the same around the 65536th parse (16-bit stamps): one filler repeated, then inputs of increasing length
                q.append(longs[-1])
                q.append((rng.choice(filler), 65536 - 4))
                for j in range(min(6, len(longs) - 1)):
                    q.append(longs[j])
        q = [dict({"variant": v["name"], "rule": v["exported"][0] if "long" not in self.grammars[g] else self.grammars[g]["long"].get("rule", v["exported"][0]),
                   "input": (inp[0] if isinstance(inp, tuple) else inp), "ctx": [0, 0], "entry": rng.choice(["parse", "noop"]), "align": rng.below(8)},
                  **({"repeat": inp[1]} if isinstance(inp, tuple) else {})) for inp in q]
        return [q], [v["name"]]


    def turn_knobs(self, plan, rng):
        """Non-default ParseSettings for half of the parse_advanced jobs, when the working tree has any knob to turn."""
        if not self.knobs:
            return plan
        for q in plan["tasks"]:
            for job in q:
                if job.get("entry") in ("sim", "noop") and rng.coin(500):
                    job["entry"] += "@%d" % (1 + rng.below(1 << 31))
        return plan

    def bulk_plan(self, i, rng):
        """Volume probe: one thread hands more than 2^32 bytes to the parsers of the process (rules that read only the
        head of their input), with ordinary jobs before, in between and after."""
        vs = self.by_grammar["head"]
        full = max(vs, key=lambda v: v["mask"])
        pad, rep = rng.choice([(1 << 28, 17), (1 << 27, 34), (3 << 26, 23)])
        small = [{"variant": rng.choice(vs)["name"], "rule": "Head", "input": self.gen_input(rng, "head"), "ctx": [0, 0], "entry": "parse", "align": 0} for _ in range(4)]
        big = {"variant": full["name"], "rule": "Head", "input": "ab 12;c", "ctx": [0, 0], "entry": "parse", "align": 0, "pad_to": pad}
        half = dict(big, repeat=rep // 2)        # 2^31 is crossed inside this job
        rest = dict(big, repeat=rep - rep // 2)  # 2^32 inside this one
        other = rng.choice([v for v in self.variants if v["grammar"] in ("calc", "stmt", "twins")])
        oj = {"variant": other["name"], "rule": other["exported"][0], "input": self.gen_input(rng, other["grammar"]), "ctx": [0, 0], "entry": "parse", "align": 0}
        sim_seed = rng.next()
        return {"id": i, "sim_seed": sim_seed, "entropy": sim_seed >> 1, "reuse_buffer": False, "aged": False, "many_parses": False, "bulk": True,
                "env": {}, "policy": {"kind": "rtc", "preempt_steps": []}, "start_at": [0], "fresh_threads": False, "deep": False,
                "tasks": [[small[0], oj, half, small[1], dict(oj), rest, small[2], dict(oj), small[3]]]}

    def churn_plan(self, i, rng):
        """Thread churn: one long-lived thread that is nearly always inside a deep parse, next to a task that runs every
        job on a new OS thread, 70..150 of them, deep and small jobs in turn (per-thread state that is handed from an exiting
        thread to a later one, tables with a slot per thread number, limits shared by threads that should not share)."""
        # (lr_memo is left out: a traced deep parse of it takes a million scheduler steps)
        cands = sorted(n for n in self.grammars if "deep" in self.grammars[n] and not self.grammars[n]["ctx"] and n != "lr_memo")
        # three times out of four one of the grammars with several rule calls per nesting level (the sum of the depths of two
        # threads is what a shared budget would see)
        many_levels = [n for n in cands if n in ("calc", "calc_indirect", "stmt")]
        g = rng.choice(many_levels) if many_levels and rng.coin(750) else rng.choice(cands)
        v = rng.choice(self.by_grammar[g])
        rule = self.grammars[g]["deep"].get("rule", v["exported"][0])
        dp = self.grammars[g]["deep"]
        def deep(n):
            return dp["prefix"] + dp["open"] * n + dp["core"] + dp["close"] * n + dp["suffix"]
        n0, n1 = rng.range(150, 250), rng.range(150, 250)
        long_lived = [{"variant": v["name"], "rule": rule, "input": deep(n0), "ctx": [0, 0], "entry": "sim", "align": 0} for _ in range(rng.range(2, 4))]
        churn = []
        for k in range(rng.range(70, 150)):
            # deep jobs for certain on the threads around the 32nd, 64th and 128th of the process (tables with a slot per thread
            # number wrap at such counts), by chance elsewhere
            is_deep = rng.coin(600) or any(abs(k + 1 - m) <= 3 for m in (32, 64, 128))
            inp = deep(n1) if is_deep else self.gen_input(rng, g)
            churn.append({"variant": v["name"], "rule": rule if is_deep else rng.choice(v["exported"]), "input": inp, "ctx": [0, 0], "entry": "parse", "align": 0})
        sim_seed = rng.next()
        return {"id": i, "sim_seed": sim_seed, "entropy": sim_seed >> 1, "reuse_buffer": False, "aged": False, "many_parses": False, "churn": True,
                "env": {}, "policy": {"kind": "random", "switch_permille": rng.choice([5, 20, 50])}, # the churn starts when the long-lived thread is somewhere inside its first deep parse
                "start_at": [0, rng.choice([1000, 2500, 5000])], "fresh_threads": [False, True], "deep": True,
                "tasks": [long_lived, churn]}

    def plan_c20(self, i):
        rng = Rng(derive(self.seed, "c20", i))
        if i % 1000 == 5 and i < 4000 and "head" in self.grammars:
            return self.bulk_plan(i, rng)
        if i % 500 == 6 and i < 8000:
            return self.churn_plan(i, rng)
        ntasks = rng.weighted([(2, 30), (3, 30), (4, 20), (5, 10), (6, 10)])
        gnames = sorted(self.grammars)
        focus = rng.coin(700)
        deep_sim = rng.coin(100)
        if deep_sim:
            g = rng.choice(sorted(n for n in gnames if "deep" in self.grammars[n] and n != "lr_memo"))  # (a traced deep parse of lr_memo is a million steps)
            vs = [v["name"] for v in rng.sample(self.by_grammar[g], min(len(self.by_grammar[g]), rng.range(1, 2)))]
            ntasks = rng.range(2, 4)
        elif focus:
            g = rng.choice(gnames)
            vs = [v["name"] for v in rng.sample(self.by_grammar[g], min(len(self.by_grammar[g]), rng.range(1, 3)))]
            rival = self.grammars[g].get("rival")
            if rival:
                # grammars that share all rule names but define them differently
                vs += [v["name"] for v in rng.sample(self.by_grammar[rival], min(len(self.by_grammar[rival]), rng.range(1, 2)))]
        else:
            vs = [rng.choice(self.variants)["name"] for _ in range(rng.range(2, 5))]
        tasks = []
        prev_jobs = []
        est = 0
        for _ in range(ntasks):
            q = []
            for _ in range(rng.range(1, 2) if deep_sim else rng.range(1, 6)):
                if deep_sim:
                    vn = rng.choice(vs)
                    v = self.by_name[vn]
                    job = {"variant": vn, "rule": rng.choice(v["exported"]), "input": self.gen_deep_input(rng, v["grammar"]), "ctx": [0, 0]}
                elif prev_jobs and rng.coin(300):
                    # deliberate repetition: the same (variant, input) again, maybe through another entry point
                    job = dict(rng.choice(prev_jobs))
                elif prev_jobs and rng.coin(200):
                    base = rng.choice(prev_jobs)
                    job = dict(base)
                    job["input"] = self.related_input(rng, self.by_name[base["variant"]]["grammar"], base["input"])
                else:
                    vn = rng.choice(vs)
                    v = self.by_name[vn]
                    job = {"variant": vn, "rule": rng.choice(v["exported"]), "input": self.gen_input(rng, v["grammar"]),
                           "ctx": self.gen_ctx(rng, v)}
                job["align"] = rng.below(8)
                job["entry"] = "sim" if deep_sim else rng.weighted([("sim", 60), ("parse", 15), ("noop", 10), ("trace", 15)])
                est += (len(job["input"]) * 20 if deep_sim else 150) if job["entry"] == "sim" else 4
                q.append(job)
                prev_jobs.append(job)
            tasks.append(q)
        aged = (not deep_sim) and rng.coin(80)
        if aged:
            # an aged process: before its ordinary jobs every task parses a long input of the variant its jobs use
            # (thousands of rule calls and cache lookups in this process), so that state accumulated over the life of a
            # process (counters, thresholds, adaptive switches, pools) shows in the later jobs
            longg = sorted(n for n in gnames if "long" in self.grammars[n] and not self.grammars[n]["ctx"])
            g = rng.choice(longg)
            full = max(self.by_grammar[g], key=lambda v: v["mask"])
            v = full if rng.coin(600) else rng.choice(self.by_grammar[g])
            rule = self.grammars[g]["long"].get("rule", v["exported"][0])
            tasks = []
            for _ in range(rng.range(1, 3)):
                q = [{"variant": v["name"], "rule": rule, "input": self.gen_long_input(rng, g, [20000, 40000, 70000, 100000]), "ctx": [0, 0],
                      "entry": rng.choice(["parse", "noop"]), "align": rng.below(8)}]
                prev = None
                for _ in range(rng.range(2, 6)):
                    inp = self.related_input(rng, g, prev) if prev is not None and rng.coin(400) else self.gen_input(rng, g)
                    prev = inp
                    q.append({"variant": v["name"], "rule": rng.choice(v["exported"]), "input": inp, "ctx": [0, 0],
                              "entry": rng.weighted([("sim", 50), ("parse", 30), ("noop", 20)]), "align": rng.below(8)})
                tasks.append(q)
            ntasks = len(tasks)
            vs = [v["name"]]
        many = (not deep_sim) and (not aged) and rng.coin(30)
        if many:
            tasks, vs = self.many_parses_tasks(rng, gnames)
            ntasks = 1
        sim_seed = rng.next()
        env = {"RUST_MIN_STACK": rng.choice(["131072", "262144", "1048576", "33554432"])} if rng.coin(250) else {}
        for name, lits in discovered_env_reads():
            # variables the working tree reads at run time (the isolated runs have none of them)
            if rng.coin(400):
                env[name] = discovered_env_value(rng, lits)
        plan = {
            "id": i, "sim_seed": sim_seed, "entropy": sim_seed >> 1,
            "reuse_buffer": rng.coin(400), "aged": aged, "many_parses": many,
            "env": env,
            "policy": {"kind": "random", "switch_permille": rng.choice([2, 5, 20])} if deep_sim else self.gen_policy(rng, ntasks, est, vs),
            "start_at": [0] * ntasks if (deep_sim or aged or many) else [0 if rng.coin(600) else rng.below(max(est // 2, 1)) for _ in range(ntasks)],
            "fresh_threads": rng.coin(300) and not (aged or many),
            "deep": deep_sim,
            "tasks": tasks,
        }
        return self.turn_knobs(plan, rng)

    def plan_c05(self, i):
        rng = Rng(derive(self.seed, "c05", i))
        cands = sorted(g for g in self.grammars if (not self.grammars[g]["ctx"] or self.grammars[g].get("ctx_readonly")) and any(v["mask"] != 0 for v in self.by_grammar[g]))
        g = rng.choice(cands)
        memo_vs = [v for v in self.by_grammar[g] if v["mask"] != 0]
        v1 = rng.choice(memo_vs)
        vs = [v1["name"]]
        if rng.coin(200):
            vs.append(rng.choice(memo_vs)["name"])
        history_shape = rng.coin(500)
        ntasks = 1 if history_shape else rng.range(2, 4)
        tasks = []
        est = 0
        prev = None
        for _ in range(ntasks):
            q = []
            for _ in range(rng.range(2, 12) if history_shape else rng.range(1, 4)):
                vn = rng.choice(vs)
                v = self.by_name[vn]
                if prev is not None and rng.coin(600):
                    inp = self.related_input(rng, g, prev)
                else:
                    inp = self.gen_input(rng, g)
                prev = inp
                job = {"variant": vn, "rule": rng.choice(v["exported"]), "input": inp, "ctx": self.gen_ctx(rng, v), "align": rng.below(8),
                       "entry": rng.weighted([("sim", 65), ("parse", 18), ("noop", 9), ("trace", 8)])}
                est += 150 if job["entry"] == "sim" else 4
                q.append(job)
            tasks.append(q)
        many = rng.coin(30)
        if many:
            tasks, vs = self.many_parses_tasks(rng, sorted(self.grammars), memo_only=True)
            ntasks = 1
        aged = (not many) and "long" in self.grammars[g] and rng.coin(100)
        if aged:
            warm = {"variant": vs[0], "rule": self.grammars[g]["long"].get("rule", self.by_name[vs[0]]["exported"][0]), "input": self.gen_long_input(rng, g, [6000, 30000, 70000, 100000]),
                    "ctx": [0, 0], "entry": rng.choice(["parse", "noop"]), "align": rng.below(8)}
            tasks[0].insert(0, warm)
        sim_seed = rng.next()
        return self.turn_knobs({
            "id": i, "sim_seed": sim_seed, "entropy": sim_seed >> 1,
            "reuse_buffer": rng.coin(400), "aged": aged, "many_parses": many,
            "policy": self.gen_policy(rng, ntasks, est, vs),
            "start_at": [0] * ntasks,
            "fresh_threads": rng.coin(300) and not many,
            "tasks": tasks,
        }, rng)

    # ---------------------------------------------------------------- execution
    def _batch(self, mode, lines, timeout_s, nshards):
        """Run each line in its own fresh child process; returns outputs aligned with lines."""
        if not lines:
            return []
        d = run_dir("parsesim-" + mode)
        try:
            nshards = max(1, min(nshards, len(lines)))
            shards = [[] for _ in range(nshards)]
            for idx, l in enumerate(lines):
                shards[idx % nshards].append((idx, l))
            procs = []
            env = dict(os.environ)
            env.update(shim_env())
            for s, items in enumerate(shards):
                inp = os.path.join(d, "in%d.jsonl" % s)
                with open(inp, "w") as f:
                    for _, l in items:
                        f.write(l + "\n")
                outp = os.path.join(d, "out%d.jsonl" % s)
                procs.append((subprocess.Popen([LAUNCH, self.worker, "batch", mode, inp, outp, str(timeout_s)], env=env,
                                               stdout=subprocess.DEVNULL, stderr=subprocess.PIPE), outp, items))
            outs = [None] * len(lines)
            for p, outp, items in procs:
                _, err = p.communicate()
                if p.returncode != 0:
                    raise HarnessError("sim-worker batch failed (%s): %s" % (p.returncode, err.decode(errors="replace")[-2000:]))
                with open(outp) as f:
                    res = [json.loads(l) for l in f if l.strip()]
                if len(res) != len(items):
                    raise HarnessError("sim-worker batch returned %d results for %d inputs" % (len(res), len(items)))
                for (idx, _), r in zip(items, res):
                    outs[idx] = r
            return outs
        finally:
            cleanup_run_dir(d)

    def run_plans(self, plans, nshards=NCPU, keep_log=False):
        lines = []
        for p in plans:
            q = dict(p)
            if q.get("reuse_buffer") and (q.get("sim_seed", 0) >> 7) % 2 == 0:
                # the reused buffer hands consecutive inputs to the parser at the very same address
                q["tasks"] = [[dict(j, align=0) for j in t] for t in q["tasks"]]
            if keep_log:
                q["keep_log"] = True
            lines.append(json.dumps(q, ensure_ascii=False))
        return self._batch("run", lines, SIM_TIMEOUT_S, nshards)

    def ensure_oracle(self, keys):
        """Isolated results: each job as the only parse of a fresh single-threaded process."""
        missing = sorted(k for k in set(keys) if k not in self.iso)
        # the isolated process gets its own seeded entropy (hash seeds), different from that of any simulation
        lines = [json.dumps({"variant": k[0], "rule": k[1], "input": key_input(k)[0], "pad_to": key_input(k)[1], "ctx": list(k[3]), "entry": k[4],
                             "entropy": derive(self.seed, "iso", *k) >> 2}, ensure_ascii=False) for k in missing]
        outs = self._batch("oracle", lines, ORACLE_TIMEOUT_S, NCPU)
        self.oracle_spawns += len(lines)
        silent = [i for i, o in enumerate(outs) if "res" not in o]
        while silent and self.long_retries_left > 0:
            # once more with the long budget, eight at a time; when a whole group stays silent that is what these jobs do
            # (a hang, not a slow machine) and the rest is not waited for; the total is capped per run
            group, silent = silent[:8], silent[8:]
            self.long_retries_left -= len(group)
            again = self._batch("oracle", [lines[i] for i in group], LONG_TIMEOUT_S, 8)
            self.oracle_spawns += len(group)
            answered = 0
            for i, o in zip(group, again):
                outs[i] = o
                if "res" in o:
                    self.slow_oracle_jobs += 1
                    answered += 1
            if answered == 0:
                break
        for k, o in zip(missing, outs):
            if "res" not in o:
                # no answer even in isolation (timeout, abort): kept as a result of its own, so that it is compared like
                # any other (a memoized variant that hangs where its twin answers is a difference); counted in the evidence
                self.no_result.append((k[0], k[2][:60], o.get("error")))
                o = {"res": "NO RESULT (%s)" % o.get("error"), "ctx": [k[3][0], k[3][1], 0]}
            self.iso[k] = o
        if len(self.no_result) > 20 and len(self.no_result) * 5 > len(self.iso):
            raise HarnessError("more than a fifth of the isolated corpus jobs gave no result; first: %r" % (self.no_result[:3],))

    # ---------------------------------------------------------------- judging
    def mismatches(self, plan, out):
        """List of (t, j, expected, actual) for jobs whose result differs from the isolated one."""
        bad = []
        for r in out["results"]:
            job = plan["tasks"][r["t"]][r["j"]]
            exp = self.iso[job_key(job)]
            if r["res"] != exp["res"] or r["ctx"] != exp["ctx"]:
                bad.append((r["t"], r["j"], {"res": exp["res"], "ctx": exp["ctx"]}, {"res": r["res"], "ctx": r["ctx"]}))
        return bad

    def run_single(self, plan, alarm=SIM_TIMEOUT_S):
        """One plan, one fresh process, directly (used by replay and minimisation)."""
        env = dict(os.environ)
        env.update(shim_env(entropy=plan.get("entropy", 0)))
        env["VERIF_ALARM"] = str(alarm)
        p = subprocess.run([LAUNCH, self.worker, "run"], input=json.dumps(plan, ensure_ascii=False).encode(), env=env,
                           stdout=subprocess.PIPE, stderr=subprocess.DEVNULL)
        if p.returncode != 0:
            return {"ok": False, "error": "timeout" if p.returncode == -14 else "died", "status": p.returncode}
        return json.loads(p.stdout)

    def fails_same(self, plan, sig, alarm=SIM_TIMEOUT_S):
        """Does some job with the signature (variant, rule, input) still differ from its isolated result?"""
        self.ensure_oracle([job_key(j) for q in plan["tasks"] for j in q])
        out = self.run_single(plan, alarm)
        if not out.get("ok"):
            return (sig == "noresult"), out
        for (t, j, exp, act) in self.mismatches(plan, out):
            job = plan["tasks"][t][j]
            if sig == "noresult":
                continue
            if (job["variant"], job["rule"], job["input"]) == tuple(sig):
                return True, out
        return False, out

    def minimise(self, plan, sig, budget=150):
        """Greedy delta debugging over the plan; every candidate runs in a fresh process."""
        best = json.loads(json.dumps(plan))
        best.pop("choices", None)
        ok, out = self.fails_same(best, sig)
        used = 1
        if not ok:
            # failure depends on the recorded schedule only; keep the plan, minimise switches below
            best = json.loads(json.dumps(plan))
        else:
            changed = True
            while changed and used < budget:
                changed = False
                # drop whole tasks
                for t in range(len(best["tasks"]) - 1, -1, -1):
                    if len(best["tasks"]) <= 1 or used >= budget:
                        break
                    cand = json.loads(json.dumps(best))
                    del cand["tasks"][t]
                    if "start_at" in cand and len(cand["start_at"]) > t:
                        del cand["start_at"][t]
                    if cand["policy"].get("victim", 0) >= len(cand["tasks"]):
                        cand["policy"]["victim"] = 0
                    used += 1
                    if self.fails_same(cand, sig)[0]:
                        best, changed = cand, True
                # drop single jobs
                for t in range(len(best["tasks"])):
                    for j in range(len(best["tasks"][t]) - 1, -1, -1):
                        if used >= budget:
                            break
                        if sum(len(q) for q in best["tasks"]) <= 1:
                            break
                        cand = json.loads(json.dumps(best))
                        del cand["tasks"][t][j]
                        if not cand["tasks"][t]:
                            continue
                        used += 1
                        if self.fails_same(cand, sig)[0]:
                            best, changed = cand, True
            # simplify the policy
            for pol in ({"kind": "rtc", "preempt_steps": []}, {"kind": "random", "switch_permille": 0}):
                if used >= budget:
                    break
                cand = json.loads(json.dumps(best))
                cand["policy"] = pol
                used += 1
                if self.fails_same(cand, sig)[0]:
                    best = cand
                    break
            ok, out = self.fails_same(best, sig)
            used += 1
            if ok and out.get("ok"):
                best["choices"] = out["choices"]
        # reduce context switches in the recorded schedule
        ch = best.get("choices")
        if ch:
            i = 1
            while i < len(ch) and used < budget:
                if ch[i] != ch[i - 1]:
                    cand = json.loads(json.dumps(best))
                    cand["choices"] = ch[:i] + [ch[i - 1]] + ch[i + 1:]
                    used += 1
                    ok, o2 = self.fails_same(cand, sig)
                    if ok and o2.get("ok"):
                        best = cand
                        best["choices"] = o2["choices"]
                        ch = best["choices"]
                        continue
                i += 1
        return best, used


def stats_init():
    return {"simulations": 0, "steps": 0, "switches": 0, "switches_inside_parse": 0, "cache_hits": 0, "leftrec_rounds": 0,
            "hook_events": 0, "rule_events": 0, "jobs": 0, "jobs_ok": 0, "jobs_err": 0, "overlap_same_variant": 0,
            "overlap_same_input": 0, "same_variant_follows_on_thread": 0, "same_input_again_on_thread": 0,
            "fresh_thread_sims": 0, "deep_nesting_sims": 0, "aged_process_sims": 0, "many_parses_sims": 0, "buffer_reuse_sims": 0, "volume_probe_sims": 0, "thread_churn_sims": 0, "slow_sims": 0, "jobs_with_turned_settings": 0, "sims_with_environment_variables": 0, "sims_mixing_grammars": 0, "unbalanced_trace_callbacks": 0, "failing_jobs_on_memoized_variants": 0}


def run_check(prop, tier, seed, replay_path=None):
    t0 = time.time()
    ps = ParseSim(seed, tier)
    if replay_path:
        return replay(ps, prop, replay_path)

    nsims = {"C20": {"quick": 3000, "thorough": 120000}, "C05": {"quick": 2000, "thorough": 100000}}[prop][tier]
    nsims = int(os.environ.get("VERIF_NSIMS", nsims))
    make = ps.plan_c20 if prop == "C20" else ps.plan_c05
    det = determinism_selftest(ps, make, 30 if tier == "quick" else 200)

    stats = stats_init()
    policies = {}
    interleavings = set()
    switch_points = set()
    nontrivial = set()
    violations = []
    samples = []
    twin_pairs = 0
    twin_checked = set()
    chunk = 5000
    done = 0
    harness_problems = []
    while done < nsims and len(violations) < 3:
        n = min(chunk, nsims - done)
        plans = [make(done + k) for k in range(n)]
        keys = [job_key(j) for p in plans for q in p["tasks"] for j in q]
        if prop == "C05":
            for p in plans:
                for q in p["tasks"]:
                    for j in q:
                        keys.append(job_key(j, noop_class(j["entry"])))
                        twin = dict(j)
                        twin["variant"] = ps.by_name[j["variant"]]["grammar"] + "_m0"
                        keys.append(job_key(twin, noop_class(j["entry"])))
                        if entry_class(j["entry"]) != noop_class(j["entry"]):
                            keys.append(job_key(twin))  # the twin under the job's own tracer as well
        if prop == "C20":
            for p in plans:
                for q in p["tasks"]:
                    for j in q:
                        eq = ps.grammars[ps.by_name[j["variant"]]["grammar"]].get("equiv")
                        if eq:
                            other = dict(j)
                            other["variant"] = eq + "_m%d" % ps.by_name[j["variant"]]["mask"]
                            keys.append(job_key(other))
        ps.ensure_oracle(keys)
        outs = ps.run_plans(plans)
        for plan, out in zip(plans, outs):
            stats["simulations"] += 1
            if not out.get("ok"):
                # no result from the simulation: a violation if it reproduces (the isolated jobs all terminate)
                if sum(1 for v in violations if v.get("sig") == "noresult") >= 2:
                    continue  # enough of these to report; every re-run may cost a full timeout
                again = ps.run_single(plan, LONG_TIMEOUT_S)
                if not again.get("ok"):
                    violations.append({"plan": plan, "sig": "noresult", "first": (None, None, None, out)})
                    continue
                # slow, not silent: judged like any other simulation
                stats["slow_sims"] += 1
                out = again
            policies[plan["policy"]["kind"]] = policies.get(plan["policy"]["kind"], 0) + 1
            for k in ("steps", "switches", "switches_inside_parse", "cache_hits", "leftrec_rounds", "hook_events", "rule_events",
                      "overlap_same_variant", "overlap_same_input"):
                stats[k] += out[k]
            stats["fresh_thread_sims"] += 1 if plan.get("fresh_threads") else 0
            stats["deep_nesting_sims"] += 1 if plan.get("deep") else 0
            stats["aged_process_sims"] += 1 if plan.get("aged") else 0
            stats["many_parses_sims"] += 1 if plan.get("many_parses") else 0
            stats["buffer_reuse_sims"] += 1 if plan.get("reuse_buffer") else 0
            stats["volume_probe_sims"] += 1 if plan.get("bulk") else 0
            stats["thread_churn_sims"] += 1 if plan.get("churn") else 0
            stats["jobs_with_turned_settings"] += sum(1 for q in plan["tasks"] for j in q if "@" in j.get("entry", ""))
            stats["sims_with_environment_variables"] += 1 if plan.get("env") else 0
            if len({self_g for self_g in (ps.by_name[j["variant"]]["grammar"] for q in plan["tasks"] for j in q)}) > 1:
                stats["sims_mixing_grammars"] += 1
            interleavings.add(out["switch_hash"])
            switch_points.update(out["switch_points"])
            same_variant_pair = False
            for q in plan["tasks"]:
                for a, b in zip(q, q[1:]):
                    if a["variant"] == b["variant"]:
                        stats["same_variant_follows_on_thread"] += 1
                        same_variant_pair = True
                        if a["input"] == b["input"]:
                            stats["same_input_again_on_thread"] += 1
            for r in out["results"]:
                stats["jobs"] += 1
                job = plan["tasks"][r["t"]][r["j"]]
                if r["res"].startswith("Ok("):
                    stats["jobs_ok"] += 1
                else:
                    stats["jobs_err"] += 1
                    if ps.by_name[job["variant"]]["mask"] != 0:
                        stats["failing_jobs_on_memoized_variants"] += 1
                if r.get("nest"):
                    stats["unbalanced_trace_callbacks"] += 1
            if out["switches_inside_parse"] >= 1 and (out["overlap_same_variant"] > 0 or same_variant_pair):
                nontrivial.add(out["switch_hash"] + short_hash(plan["tasks"]))
            elif prop == "C05" and same_variant_pair and out["cache_hits"] > 0:
                nontrivial.add(out["switch_hash"] + short_hash(plan["tasks"]))
            bad = ps.mismatches(plan, out)
            if bad:
                t, j, exp, act = bad[0]
                job = plan["tasks"][t][j]
                plan = dict(plan)
                plan["choices"] = out["choices"]
                violations.append({"plan": plan, "sig": [job["variant"], job["rule"], job["input"]], "first": (t, j, exp, act)})
            if len(samples) < 3 and out["switches_inside_parse"] > 2:
                samples.append({"seed_index": plan["id"], "policy": plan["policy"], "fresh_threads": plan.get("fresh_threads", False),
                                "tasks": [[{k: j[k] for k in ("variant", "rule", "input", "entry")} for j in q] for q in plan["tasks"]],
                                "schedule_prefix": out["choices"][:40], "steps": out["steps"], "switches": out["switches"]})
        # C20: re-entrancy. A grammar whose @extern function runs a nested parse on the calling thread must give the
        # same results as its twin that runs the nested parse on a helper thread
        if prop == "C20":
            for p in plans:
                for q in p["tasks"]:
                    for j in q:
                        eq = ps.grammars[ps.by_name[j["variant"]]["grammar"]].get("equiv")
                        if not eq:
                            continue
                        a = job_key(j)
                        if a in twin_checked:
                            continue
                        twin_checked.add(a)
                        other = dict(j)
                        other["variant"] = eq + "_m%d" % ps.by_name[j["variant"]]["mask"]
                        ra, rb = ps.iso[a], ps.iso[job_key(other)]
                        twin_pairs += 1
                        if ra["res"] != rb["res"]:
                            violations.append({"twin": {"job": j, "memoized": ra, "plain": rb, "twin_variant": other["variant"], "kind": "reentrant-parse-differs"}})
        # C05 second oracle: isolated result of the memoized variant agrees with its non-memoized twin
        if prop == "C05":
            for p in plans:
                for q in p["tasks"]:
                    for j in q:
                        a = job_key(j, noop_class(j["entry"]))
                        if a in twin_checked:
                            continue
                        twin_checked.add(a)
                        twin = dict(j)
                        twin["variant"] = ps.by_name[j["variant"]]["grammar"] + "_m0"
                        ra, rb = ps.iso[a], ps.iso[job_key(twin, noop_class(j["entry"]))]
                        twin_pairs += 1
                        oka, okb = ra["res"].startswith("Ok("), rb["res"].startswith("Ok(")
                        if oka != okb or (oka and ra["res"] != rb["res"]):
                            violations.append({"twin": {"job": j, "memoized": ra, "plain": rb, "twin_variant": twin["variant"]}})
                        if entry_class(j["entry"]) != noop_class(j["entry"]) and job_key(j) not in twin_checked:
                            # the same comparison with the job's own tracer type in both (a tracer must not change what @memoize does)
                            twin_checked.add(job_key(j))
                            ra, rb = ps.iso[job_key(j)], ps.iso[job_key(twin)]
                            twin_pairs += 1
                            oka, okb = ra["res"].startswith("Ok("), rb["res"].startswith("Ok(")
                            if oka != okb or (oka and ra["res"] != rb["res"]):
                                violations.append({"twin": {"job": j, "memoized": ra, "plain": rb, "twin_variant": twin["variant"], "kind": "memoize-differs-under-tracer"}})
        done += n

    # C05: long inputs (offsets beyond 2^16), memoized variants against the non-memoized twin, isolated runs only
    long_pairs = 0
    if prop == "C05" and len(violations) < 3:
        rng = Rng(derive(seed, "c05-long"))
        per_grammar = 3 if tier == "quick" else 12
        jobs = []
        for g in sorted(ps.grammars):
            if "long" not in ps.grammars[g] or ps.grammars[g]["ctx"]:
                continue
            memo_vs = [v for v in ps.by_grammar[g] if v["mask"] != 0]
            for _ in range(per_grammar):
                inp = ps.gen_long_input(rng, g)
                full = max(memo_vs, key=lambda v: v["mask"])
                for v in {full["name"], rng.choice(memo_vs)["name"]}:
                    jobs.append({"variant": v, "rule": ps.grammars[g]["long"].get("rule", ps.by_name[v]["exported"][0]), "input": inp, "ctx": [0, 0], "entry": "noop"})
        # depth sweep: every nesting depth once (limits, budgets and windows that bite at one particular depth)
        depth_jobs = 0
        for g in sorted(ps.grammars):
            if "deep" not in ps.grammars[g] or ps.grammars[g]["ctx"]:
                continue
            dp = ps.grammars[g]["deep"]
            memo_vs = [v for v in ps.by_grammar[g] if v["mask"] != 0]
            full = max(memo_vs, key=lambda v: v["mask"])
            for n in range(1, dp.get("sweep_to", 300) + 1):
                inp = dp["prefix"] + dp["open"] * n + dp["core"] + dp["close"] * n + dp["suffix"]
                jobs.append({"variant": full["name"], "rule": dp.get("rule", full["exported"][0]), "input": inp, "ctx": [0, 0], "entry": "noop"})
                depth_jobs += 1
        if ps.knobs:
            krng = Rng(derive(seed, "c05-knobs"))
            for j in jobs:
                if krng.coin(500):
                    j["entry"] = "noop@%d" % (1 + krng.below(1 << 31))
        keys = []
        for j in jobs:
            twin = dict(j)
            twin["variant"] = ps.by_name[j["variant"]]["grammar"] + "_m0"
            keys += [job_key(j), job_key(twin)]
        ps.ensure_oracle(keys)
        for j in jobs:
            twin = dict(j)
            twin["variant"] = ps.by_name[j["variant"]]["grammar"] + "_m0"
            ra, rb = ps.iso[job_key(j)], ps.iso[job_key(twin)]
            long_pairs += 1
            oka, okb = ra["res"].startswith("Ok("), rb["res"].startswith("Ok(")
            if oka != okb or (oka and ra["res"] != rb["res"]):
                violations.append({"twin": {"job": j, "memoized": {"res": ra["res"][:2000]}, "plain": {"res": rb["res"][:2000]}, "twin_variant": twin["variant"]}})

    wall_sims = time.time() - t0
    # -------- report violations (replayed once in a fresh process, then minimised)
    nviol = 0
    for v in violations[:3]:
        nviol += 1
        if "twin" in v:
            tw = v["twin"]
            path = write_replay(prop, "%d-twin-%s" % (seed, short_hash(tw["job"])), {
                "property": prop, "kind": tw.get("kind", "memoize-subset-differs"), "seed": seed, "job": tw["job"],
                "twin_variant": tw["twin_variant"], "memoized_result": tw["memoized"], "plain_result": tw["plain"],
                "note": "isolated result differs from the twin grammar's (memoized vs plain: acceptance or tree; nested parse on the calling thread vs helper thread: exact)"})
            log("VIOLATION property=%s replay=%s" % (prop, path))
            continue
        plan, sig = v["plan"], v["sig"]
        # (the long budget was already spent on this plan when it was found; the report re-runs it with the ordinary one)
        rep_ok, _ = ps.fails_same(plan, sig)
        minimal, used = ps.minimise(plan, sig, budget=12 if sig == "noresult" else 150) if rep_ok else (plan, 0)
        fin_ok, fin_out = ps.fails_same(minimal, sig)
        detail = None
        if fin_ok and fin_out.get("ok"):
            for (t, j, exp, act) in ps.mismatches(minimal, fin_out):
                detail = {"task": t, "job": j, "job_spec": minimal["tasks"][t][j], "expected_isolated": exp, "actual": act}
                break
        path = write_replay(prop, "%d-%d-%s" % (seed, plan["id"], short_hash(minimal)), {
            "property": prop, "kind": "differs-from-isolated" if sig != "noresult" else "no-result", "seed": seed,
            "simulation_index": plan["id"], "signature": sig, "plan": minimal if fin_ok else plan, "unminimised_plan": plan,
            "difference": detail, "first_seen": {"task": v["first"][0], "job": v["first"][1], "expected_isolated": v["first"][2], "actual": v["first"][3]},
            "reproduced_in_fresh_process": bool(rep_ok), "minimisation_runs": used,
            "note": "replay: ./check %s --replay <this file>; re-executes the recorded scheduler choices in a fresh process" % prop})
        log("VIOLATION property=%s replay=%s" % (prop, path))

    # -------- reach counters that must not be zero (a vacuous workload is a harness error)
    reach_required = ["cache_hits", "same_variant_follows_on_thread", "overlap_same_variant", "switches_inside_parse", "jobs_err"]
    if prop == "C20":
        reach_required += ["leftrec_rounds", "hook_events"]
    if prop == "C05":
        reach_required += ["failing_jobs_on_memoized_variants"]
    vacuous = [k for k in reach_required if stats[k] == 0]

    wall = time.time() - t0
    per_hour = int(stats["simulations"] / max(wall_sims, 1e-6) * 3600)
    coverage = {
        "evaluations": stats["simulations"],
        "distinct_nontrivial": len(nontrivial),
        "rule": ("one evaluation = one simulation (1..6 tasks on real OS threads, each a queue of parse jobs, run under the seeded baton scheduler in a fresh process). "
                 "Counted as distinct by the hash of the context-switch sequence (step, from, to) together with the job table; non-trivial = at least one context switch "
                 "inside a parse (not at a job boundary) and two jobs of the same grammar variant that overlap in time or follow each other on one thread"
                 + ("; for the pure-history shape (one task) a same-variant successor with at least one cache hit" if prop == "C05" else "")),
        "samples": samples,
        "distinct_interleavings": len(interleavings),
        "distinct_switch_points_kind_rule_offset": len(switch_points),
        "simulated_steps": stats["steps"],
        "simulated_time_note": "the system under test has no timers; simulated time is scheduler steps",
        "runs_per_hour": per_hour,
        "seeds": "simulation i uses sub-seed sha256(VERIF_SEED|%s|i)" % prop.lower(),
        "schedule_policies_used": policies,
        "faults_fired": {"forced_preemption_or_stall_policies": sum(policies.get(k, 0) for k in ("rtc", "stall", "targeted", "pct")),
                         "staggered_start_sims": None, "fresh_thread_per_job_sims": stats["fresh_thread_sims"]},
        "reach": stats,
        # seams taken from the working tree: knobs of ParseSettings and run-time environment reads (both empty on the unchanged tree)
        "parse_settings_knobs_found": ps.knobs,
        "environment_reads_found": [n for n, _ in discovered_env_reads()],
        "isolated_oracle_processes": ps.oracle_spawns,
        "isolated_jobs_without_result": len(ps.no_result),
        "isolated_jobs_answered_only_with_the_long_budget": ps.slow_oracle_jobs,
        "determinism_selftest": det,
        "harness_problems": harness_problems[:5],
        "real_components": ["generated parsers (built from /repo working tree by its own peginator_codegen)", "peginator runtime", "std::thread / real TLS", "IndentedTracer via parse_with_trace"],
        "stubbed_components": ["SimTracer and corpus @extern/@check functions are harness code (the API's user-supplied parts)", "entropy (getrandom) and address layout of worker processes are seeded via the LD_PRELOAD shim"],
    }
    if prop == "C20":
        coverage["reentrant_vs_helper_thread_pairs_compared"] = twin_pairs
    if prop == "C05":
        coverage["memoize_twin_pairs_compared"] = twin_pairs
        coverage["long_input_twin_pairs_compared"] = long_pairs
        coverage["long_input_note"] = "includes a sweep over every nesting depth 1..300 of the deep templates (all variants fully memoized, plus the twin)"
        coverage["twin_note"] = "subset x input facet: sampled on the fixed corpus only (all 2^k subsets of its memoizable rules), not searched"
    coverage["faults_fired"].pop("staggered_start_sims")
    write_evidence(prop, tier, seed, "exploration", coverage, wall, nviol, [
        "oracle = the same call as the only parse of a fresh single-threaded process (same tracer type); equality of {:?} renderings",
        "context switches happen only at ParseTracer callbacks, @extern/@check calls and job boundaries" + ("; finer preemption and data races are covered by the Miri part" if prop == "C20" else ""),
        "corpus of %d grammars / %d @memoize-subset variants; simulated inputs <= 40 bytes (deep ones up to ~500, warm-ups up to 100 KB)" % (len(ps.grammars), len(ps.variants)),
    ])
    if nviol:
        return 1
    if harness_problems:
        raise HarnessError("simulations without result that did not reproduce: %r" % harness_problems[:2])
    if vacuous and stats["simulations"] >= 500:
        raise HarnessError("vacuous workload, reach counters at zero: %s" % vacuous)
    log("%s %s: %d simulations, %d distinct non-trivial, %d steps, %d switches inside parses, 0 violations (%.1fs)" % (
        prop, tier, stats["simulations"], len(nontrivial), stats["steps"], stats["switches_inside_parse"], wall))
    return 0


def determinism_selftest(ps, make, n):
    """Same plans, run twice with different worker counts: event logs must be identical."""
    plans = [make(10_000_000 + k) for k in range(n)]
    a = ps.run_plans(plans, nshards=4)
    b = ps.run_plans(plans, nshards=NCPU)
    diffs = 0
    for x, y in zip(a, b):
        if not x.get("ok") or not y.get("ok"):
            # no result both times with the same cause is consistent behaviour of the code under test (judged by the main run)
            if x.get("ok") != y.get("ok") or x.get("error") != y.get("error"):
                diffs += 1
            continue
        if (x["log_hash"], x["choices"], x["results"]) != (y["log_hash"], y["choices"], y["results"]):
            diffs += 1
    if diffs:
        raise HarnessError("determinism self-test: %d of %d simulations differed between two runs of the same seed" % (diffs, n))
    return {"simulations_run_twice": n, "worker_counts": [4, NCPU], "differences": 0}


def replay(ps, prop, path):
    r = json.load(open(path))
    if r.get("kind") in ("memoize-subset-differs", "reentrant-parse-differs", "memoize-differs-under-tracer"):
        job = r["job"]
        twin = dict(job)
        twin["variant"] = r["twin_variant"]
        cls = noop_class(job.get("entry", "noop")) if r["kind"] == "memoize-subset-differs" else None
        ps.ensure_oracle([job_key(job, cls), job_key(twin, cls)])
        ra, rb = ps.iso[job_key(job, cls)], ps.iso[job_key(twin, cls)]
        oka, okb = ra["res"].startswith("Ok("), rb["res"].startswith("Ok(")
        if (r["kind"] == "reentrant-parse-differs" and ra["res"] != rb["res"]) or oka != okb or (oka and ra["res"] != rb["res"]):
            log("memoized: %s\nplain:    %s" % (ra["res"], rb["res"]))
            log("VIOLATION property=%s replay=%s" % (prop, path))
            return 1
        log("replay: results agree now")
        return 0
    plan, sig = r["plan"], r["signature"]
    ok, out = ps.fails_same(plan, sig, LONG_TIMEOUT_S if sig == "noresult" else SIM_TIMEOUT_S)
    if ok:
        if out.get("ok"):
            for (t, j, exp, act) in ps.mismatches(plan, out):
                log("task %d job %d %r\n expected (isolated): %s\n actual:              %s" % (t, j, plan["tasks"][t][j], exp, act))
        else:
            log("simulation produced no result: %r" % out)
        log("VIOLATION property=%s replay=%s" % (prop, path))
        return 1
    log("replay: no difference from the isolated results")
    return 0
