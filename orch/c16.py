"""C16: code generation is deterministic and identical through every route.
Every simulation compiles one (grammar, settings) pair through every route in 2..4
seeded process environments (entropy, clock, env vars, cwd, path spelling, stdout kind,
heap layout) and compares bytes."""
import json
import os
import shutil
import subprocess
import time
from concurrent.futures import ThreadPoolExecutor

import procsim
from common import (discovered_env_reads, discovered_env_value, NCPU, SIM_DIR, TARGET, VERIF, HarnessError, Rng, cargo_env, cleanup_run_dir, cli_bin, derive, load_known_findings,
                    log, run_dir, sh, shim_env, short_hash, sim_bin, write_evidence, write_replay, SHIM_SO, LAUNCH)
from procsim import HEADER_RE, base_env, run_child, split_driver_output

ROUTES = ["lib", "lib_again", "lib_after_others", "cli", "cli_release", "compile_file", "compile_dir", "compile_exit"]
FACTORS = ["entropy", "clock", "envvars", "cwd", "spelling", "stdout", "heap_pad", "arg_order", "cpus", "file_mode", "nest"]


CARGO_LIKE = ["CARGO_PKG_NAME", "CARGO_CRATE_NAME", "CARGO_BIN_NAME", "CARGO_PKG_VERSION", "CARGO_PRIMARY_PACKAGE", "PROFILE", "TARGET", "HOST",
              "OPT_LEVEL", "DEBUG", "NUM_JOBS", "RUSTFLAGS", "RUSTC", "RUSTC_WRAPPER", "CARGO_TARGET_DIR", "LOGNAME", "PWD", "SHELL", "EDITOR"]


def gen_env(rng, idents=(), path_leads=()):
    ev = {}
    for name, lits in discovered_env_reads():
        # variables the working tree reads at run time: absent, or one of the literals next to the read, or a stock value
        if rng.coin(600):
            ev[name] = discovered_env_value(rng, lits)
    if path_leads and rng.coin(500):
        # the build's own crate/package name equals the first segment of a user path in the grammar
        ev[rng.choice(["CARGO_PKG_NAME", "CARGO_CRATE_NAME"])] = rng.choice(path_leads)
    for _ in range(rng.weighted([(0, 50), (1, 25), (2, 15), (4, 10)])):
        # build-system style variables; with preference for values that collide with identifiers of the grammar
        name = rng.choice(CARGO_LIKE)
        if idents and rng.coin(600):
            ev[name] = rng.choice(idents)
        else:
            ev[name] = rng.choice(["1", "0", "true", "release", "debug", "x86_64-unknown-linux-gnu", "my-crate", "my_crate", "/usr/bin/rustc", "-C debuginfo=2", "0.7.0"])
    if rng.coin(300):
        ev["NO_COLOR"] = "1"
    if rng.coin(200):
        ev["CLICOLOR_FORCE"] = "1"
    if rng.coin(200):
        ev["CLICOLOR"] = rng.choice(["0", "1"])
    t = rng.choice([None, "dumb", "xterm-256color", "vt100"])
    if t:
        ev["TERM"] = t
    ev["LANG"] = rng.choice(["C", "en_US.UTF-8", "hu_HU.UTF-8", "tr_TR.UTF-8"])
    if rng.coin(200):
        ev["LC_ALL"] = rng.choice(["C", "tr_TR.UTF-8"])
    ev["RUST_BACKTRACE"] = rng.choice(["0", "1", "full"])
    if rng.coin(300):
        ev["TZ"] = rng.choice(["UTC", "Asia/Tokyo", "America/New_York"])
    if rng.coin(200):
        ev["SOURCE_DATE_EPOCH"] = str(rng.range(0, 2000000000))
    if rng.coin(200):
        ev["USER"] = rng.choice(["alice", "bob"])
    if rng.coin(200):
        ev["HOSTNAME"] = rng.choice(["build-1", "laptop"])
    if rng.coin(150):
        ev["TMPDIR"] = rng.choice(["/tmp", "/var/tmp"])
    if rng.coin(150):
        ev["HOME"] = rng.choice(["/root", "/nonexistent-home"])
    if rng.coin(150):
        ev["CARGO_MANIFEST_DIR"] = rng.choice(["/somewhere/else", "/repo"])
    if rng.coin(150):
        ev["OUT_DIR"] = "/somewhere/out"
    return {
        "entropy": rng.below(1 << 62),
        "clock": "%d:%d" % (rng.range(978307200, 2208988800), rng.choice([0, 1000, 1000000000, 86400000000000])),
        "envvars": ev,
        "cwd": rng.choice(["proj", "root", "sim"]),
        # how the grammar is named: spellings of its path, or /dev/stdin fed through a pipe (no size, no seeking)
        "spelling": rng.choice(["abs", "rel", "dotrel", "symlink", "redundant", "devstdin"]),
        "stdout": rng.choice(["pipe", "file", "tty"]),
        "cpus": rng.choice([None, None, "0", "0-3"]),
        "heap_pad": rng.choice([0, 0, 7, 100, 1000]),
        "arg_order": rng.below(1 << 30),
        "file_mode": rng.choice([0o644, 0o644, 0o444, 0o755, 0o600, 0o400]),
        # where the project lives: directly in the run directory, or many levels (and many bytes of path) further down
        "nest": rng.choice([0, 0, 0, 6, 14, 40]),
    }


def gen_sim(seed, i, pool):
    rng = Rng(derive(seed, "c16", i))
    # every pool grammar is visited in turn (seeded permutation), so a short run still covers the whole pool
    perm = list(range(len(pool)))
    Rng(derive(seed, "c16-perm", i // len(pool))).shuffle(perm)
    name, text = pool[perm[i % len(pool)]]
    derives = rng.weighted([(None, 50), (["Debug", "Clone", "PartialEq", "Eq"], 30), (["Debug", "Clone", "PartialEq", "Eq", "Hash", "Default"], 5), ([], 12),
                           # derive sets without Clone: whatever adds or assumes Clone somewhere shows
                           (["Debug"], 8), (["Debug", "PartialEq"], 7)])
    ctx = "crate::some::Ctx" if rng.coin(150) else None
    prefix = rng.choice(["", "", "use x;", "use x;\n// p", "pub struct ImJustHereToConfuse;"])
    fmt = rng.coin(120)
    if i < len(pool):
        # first pass over the pool: settings every route can express, so that each grammar is compared across all routes
        derives, ctx, fmt = (None if rng.coin(600) else ["Debug", "Clone", "PartialEq", "Eq"]), None, False
        import re as _re
        if rng.coin(300) and not _re.search(rb"(?m)^[ \t]*@memoize", text):
            derives = ["Debug", "PartialEq"]  # a derive set without Clone, for grammars that do not need it
    # other grammars compiled in the same process before / next to the one under study (directory mode, repeated library calls)
    companions = []
    inc = [t for n, t in pool if b">" in t and n != name]
    for _ in range(rng.range(1, 3)):
        n2, t2 = rng.choice(pool)
        if inc and rng.coin(400):
            t2 = rng.choice(inc)
        if t2 != text:
            companions.append(t2.hex())
    import re
    # grammars the generator rejects, compiled with the same settings value before the one under study (library route in a
    # long-lived process only: whatever a failed call leaves behind must not reach the next call).  Each comes with a seeded
    # choice of directives on its rules, so the failing rule is a @no_skip_ws / @memoize / @leftrec / @position / @string one too.
    rejected = []
    if rng.coin(500):
        import c15
        table = [t for t in c15.RESTRICTIONS + c15.RATIONALE if not t[2]]
        for _ in range(rng.range(1, 3)):
            t2 = rng.choice(table)[1]
            d = rng.choice(["@no_skip_ws", "@no_skip_ws", "@memoize", "@leftrec", "@position", "@string", None])
            if d:
                every = rng.coin(500)
                lines = []
                for l in t2.split("\n"):
                    if re.match(r"[A-Za-z0-9_]+\s*=", l) and (every or rng.coin(500)):
                        lines.append(d)
                    lines.append(l)
                t2 = "\n".join(lines)
            rejected.append(t2.encode().hex())
    idents = sorted(set(re.findall(r"[A-Za-z_][A-Za-z0-9_]*", text.decode(errors="replace"))))
    leads = sorted(set(re.findall(r"(?:@check|@extern)\(\s*([A-Za-z_]\w*)\s*::", text.decode(errors="replace"))) |
                   set(re.findall(r"->\s*([A-Za-z_]\w*)\s*::", text.decode(errors="replace"))))
    envs = [gen_env(rng, idents, leads) for _ in range(rng.range(2, 4))]
    # some pairs differ in exactly one factor (sharper attribution, and equal paths stay equal)
    if rng.coin(400):
        f = rng.choice(FACTORS)
        e1 = json.loads(json.dumps(envs[0]))
        e1[f] = gen_env(rng, idents, leads)[f]
        envs[1] = e1
    return {"id": i, "grammar_name": name, "grammar_hex": text.hex(), "derives": derives, "ctx": ctx, "prefix": prefix, "format": fmt, "companions": companions, "rejected": rejected, "envs": envs,
            # the Compile routes may find a destination made from another grammar by an earlier run (newer than the grammar)
            "prefill_hex": (rng.choice(pool)[1].hex() if rng.coin(250) else None),
            "rustfmt_toml": (rng.choice(["hard_tabs = true\n", "max_width = 60\n", "tab_spaces = 2\n"]) if fmt and rng.coin(600) else None)}


def settings_args(route, sim):
    a = []
    d = sim["derives"]
    if route.startswith("cli"):
        if d:
            for x in d:
                a += ["-d", x]
        return a
    if d is not None:
        a += ["--no-derives"] if not d else ["--derives", ",".join(d)]
    if sim["ctx"]:
        a += ["--ctx", sim["ctx"]]
    return a


def route_applicable(route, sim):
    if route == "lib_after_others" and not sim.get("companions") and not sim.get("rejected"):
        return False
    if route.startswith("cli") and (sim["ctx"] or sim["derives"] == []):
        return False  # the CLI has no flag for a user context and cannot express the empty derive set
    return True


def spell(path, spelling, simdir, envdir, cwd_abs):
    """A spelling of an absolute path under <envdir>/proj."""
    if spelling == "abs":
        return path
    if spelling == "rel":
        return os.path.relpath(path, cwd_abs)
    if spelling == "dotrel":
        return "./" + os.path.relpath(path, cwd_abs)
    if spelling == "symlink":
        # <envdir>/link -> <envdir>/proj
        return path.replace(os.path.join(envdir, "proj"), os.path.join(envdir, "link"), 1)
    if spelling == "redundant":
        return path.replace(os.path.join(envdir, "proj"), os.path.join(envdir, "proj", "..", "proj", "."), 1)
    return path


def env_dir(simdir, k, route, env):
    envdir = os.path.join(simdir, "e%d_%s" % (k, route))
    for lvl in range(env.get("nest", 0)):
        envdir = os.path.join(envdir, "checkout-%02d" % lvl if lvl % 3 else "w")
    return envdir


def run_route(route, sim, env, simdir, k, stats=None):
    """Runs one route in environment k; returns dict(ok=bool, crashed=bool, bytes=..., canary=...)."""
    envdir = env_dir(simdir, k, route, env)
    proj = os.path.join(envdir, "proj")
    os.makedirs(os.path.join(proj, "grammars"))
    os.makedirs(os.path.join(proj, "out"))
    os.symlink(proj, os.path.join(envdir, "link"))
    if sim.get("rustfmt_toml"):
        # a project-level rustfmt configuration above the destination (found from the file's directory upwards)
        with open(os.path.join(envdir, "rustfmt.toml"), "w") as f:
            f.write(sim["rustfmt_toml"])
    gpath = os.path.join(proj, "grammars", "g.ebnf")
    with open(gpath, "wb") as f:
        f.write(bytes.fromhex(sim["grammar_hex"]))
    os.chmod(gpath, env.get("file_mode", 0o644))
    cwd = {"proj": proj, "root": "/", "sim": envdir}[env["cwd"]]
    g_sp = spell(gpath, env["spelling"], simdir, envdir, cwd)
    child_stdin = None
    if env["spelling"] == "devstdin" and route != "compile_dir" and not (sim.get("prefill_hex") and route.startswith("compile")):
        g_sp = "/dev/stdin"
        child_stdin = bytes.fromhex(sim["grammar_hex"])
    dest = os.path.join(proj, "out", "out.rs")
    d_sp = spell(dest, env["spelling"], simdir, envdir, cwd)
    e = base_env("present")
    e.update(env["envvars"])
    sa = settings_args(route, sim)
    stdout_path = os.path.join(envdir, "stdout.txt") if env["stdout"] == "file" else None
    stdout_tty = env["stdout"] == "tty" 
    comp_paths = []
    for ci, chex in enumerate(sim.get("companions", [])):
        cp = os.path.join(proj, "grammars", "c%d.ebnf" % ci)
        if route in ("compile_dir", "lib_after_others"):
            with open(cp, "wb") as f:
                f.write(bytes.fromhex(chex))
            comp_paths.append(cp)

    if route == "lib_after_others":
        for ci, chex in enumerate(sim.get("rejected", [])):
            cp = os.path.join(proj, "r%d.ebnf" % ci)
            with open(cp, "wb") as f:
                f.write(bytes.fromhex(chex))
            comp_paths.insert(Rng(env.get("arg_order", 0) + ci).below(len(comp_paths) + 1), cp)

    def ordered(groups):
        # builder methods are called in a seeded order: the same settings must give the same code
        r = Rng(env.get("arg_order", 0))
        groups = [g for g in groups if g]
        r.shuffle(groups)
        return [x for g in groups for x in g]

    def setting_groups():
        gs = []
        d = sim["derives"]
        if d is not None:
            gs.append(["--no-derives"] if not d else ["--derives", ",".join(d)])
        if sim["ctx"]:
            gs.append(["--ctx", sim["ctx"]])
        gs.append(["--prefix", sim["prefix"]])
        if sim["format"]:
            gs.append(["--format"])
        return gs

    if route == "lib":
        argv = [sim_bin("driver"), "gen", g_sp] + sa
    elif route == "lib_again":
        # the Grammar value has a history inside the process (used before, cloned, Debug-printed)
        argv = [sim_bin("driver"), "gen", g_sp] + sa + ["--again", Rng(env.get("arg_order", 0) + 17).choice(["same", "thrice", "clone_after", "clone_before", "debug_first", "settings_reused", "settings_cloned", "settings_twice"])]
    elif route == "lib_after_others":
        argv = [sim_bin("driver"), "gen-multi"] + comp_paths + [g_sp] + sa
    elif route.startswith("cli"):
        argv = [cli_bin(release=route == "cli_release")] + sa + [g_sp]
    elif route == "compile_dir":
        argv = [sim_bin("driver"), "compile", "--dir", spell(os.path.join(proj, "grammars"), env["spelling"], simdir, envdir, cwd)] + ordered(setting_groups())
        dest = os.path.join(proj, "grammars", "g.rs")
    else:
        argv = [sim_bin("driver"), "compile", "--file", g_sp] + ordered(setting_groups() + [["--dest", d_sp]])
        if route == "compile_exit":
            argv.append("--exit")
    if sim.get("prefill_hex") and route.startswith("compile"):
        with open(gpath, "wb") as f:
            f.write(bytes.fromhex(sim["prefill_hex"]))
        run_child(argv, cwd, e, entropy=env["entropy"], clock=env["clock"])
        with open(gpath, "wb") as f:
            f.write(bytes.fromhex(sim["grammar_hex"]))
        os.utime(gpath, (631152000, 631152000))  # the current text looks older than what the earlier run left behind
        if os.path.isfile(dest):
            os.utime(dest, (2208988800, 2208988800))
    c = run_child(argv, cwd, e, entropy=env["entropy"], clock=env["clock"], heap_pad=env["heap_pad"], stdout_path=stdout_path,
                  stdout_tty=stdout_tty, cpus=env.get("cpus"), stdin=child_stdin)
    r = {"crashed": c.crashed(), "status": c.status_word(), "ok": False, "bytes": None, "canary": None, "stderr": c.err[-300:].decode(errors="replace")}
    if c.crashed():
        return r
    if route.startswith("cli"):
        r["ok"] = c.rc == 0
        r["bytes"] = c.out if r["ok"] else None
        return r
    canary, marker, rest = split_driver_output(c.out)
    r["canary"] = canary
    if route in ("lib", "lib_again", "lib_after_others"):
        r["ok"] = marker == "OK"
        r["bytes"] = rest if r["ok"] else None
        return r
    if route == "compile_exit":
        r["ok"] = c.rc == 0 and marker == "Returned"
    else:
        r["ok"] = c.rc == 0 and marker == "Ok"
    if r["ok"]:
        r["bytes"] = open(dest, "rb").read() if os.path.isfile(dest) else None
        if r["bytes"] is None:
            r["ok"] = False
            r["status"] += "+nodest"
    elif route == "compile_dir" and comp_paths:
        # a companion grammar that does not compile with these settings fails the whole directory run: not comparable
        for cp in comp_paths:
            cc = run_child([sim_bin("driver"), "gen", cp] + settings_args("lib", sim), cwd, e, entropy=env["entropy"])
            if split_driver_output(cc.out)[1] != "OK":
                r["skip"] = True
    return r


def normalise(route, data, prefix):
    """Generated code without the route's own framing (header, prefix, trailing newline); None if the framing is not there."""
    if data is None:
        return None
    if route in ("lib", "lib_again", "lib_after_others"):
        return data[:-1] if data.endswith(b"\n") else data
    header, tail = procsim.split_header(data)
    if not header:
        return None
    if route.startswith("cli"):
        if not tail.startswith(b"\n"):
            return None
        tail = tail[1:]
        return tail[:-1] if tail.endswith(b"\n") else tail
    want = b"\n" + prefix.encode() + b"\n"
    if not tail.startswith(want):
        return None
    return tail[len(want):]


def execute_sim(sim, simdir):
    """Returns (violations, info)."""
    viol = []
    outs = {}
    canaries = set()
    children = 0
    for route in ROUTES:
        if not route_applicable(route, sim):
            continue
        for k, env in enumerate(sim["envs"]):
            rr = run_route(route, sim, env, simdir, k)
            children += 1
            if rr.get("skip"):
                continue
            outs[(route, k)] = rr
            if outs[(route, k)]["canary"]:
                canaries.add(outs[(route, k)]["canary"])
    for (route, k), r in outs.items():
        if r["crashed"]:
            viol.append({"class": "crash", "route": route, "env": k, "detail": "child %s: %s" % (r["status"], r["stderr"])})
    # (a) same route, different environments: byte-identical
    for route in ROUTES:
        ks = [k for k in range(len(sim["envs"])) if (route, k) in outs]
        for k in ks[1:]:
            a, b = outs[(route, ks[0])], outs[(route, k)]
            if a["ok"] != b["ok"]:
                viol.append({"class": "acceptance-differs-between-processes", "route": route, "env_a": ks[0], "env_b": k,
                             "detail": "%s vs %s" % (a["status"], b["status"])})
            elif a["ok"] and a["bytes"] != b["bytes"]:
                viol.append({"class": "bytes-differ-between-processes", "route": route, "env_a": ks[0], "env_b": k,
                             "detail": first_diff(a["bytes"], b["bytes"])})
    # (b) different routes, same environment: identical after header / prefix / trailing newline
    # (with format on, the Compile routes are formatted and are compared with rustfmt of their plain output below)
    if True:
        for k in range(len(sim["envs"])):
            if ("lib", k) not in outs:
                continue
            lib = outs[("lib", k)]
            for route in ROUTES[1:]:
                if (route, k) not in outs or (sim["format"] and route.startswith("compile")):
                    continue
                r = outs[(route, k)]
                if r["crashed"] or lib["crashed"]:
                    continue
                if r["ok"] != lib["ok"]:
                    viol.append({"class": "routes-disagree-on-acceptance", "route": route, "env": k, "detail": "lib %s, %s %s" % (lib["status"], route, r["status"])})
                elif r["ok"]:
                    n = normalise(route, r["bytes"], sim["prefix"])
                    ln = normalise("lib", lib["bytes"], "")
                    if n is None:
                        viol.append({"class": "route-framing-unexpected", "route": route, "env": k, "detail": "output does not start with header%s" % (" + prefix" if not route.startswith("cli") else "")})
                    elif n != ln:
                        viol.append({"class": "routes-differ", "route": route, "env": k, "detail": first_diff(ln, n)})
    if sim["format"]:
        # format on: rustfmt applied by the harness to the route's unformatted output must give the formatted output
        for k in range(len(sim["envs"])):
            for route in ("compile_file",):
                if (route, k) not in outs or not outs[(route, k)]["ok"]:
                    continue
                plain_sim = dict(sim)
                plain_sim["format"] = False
                pr = run_route(route, plain_sim, sim["envs"][k], simdir, 100 + k)
                children += 1
                if not pr["ok"]:
                    viol.append({"class": "routes-disagree-on-acceptance", "route": route, "env": k, "detail": "format on ok, format off %s" % pr["status"]})
                    continue
                tmp = os.path.join(env_dir(simdir, 100 + k, route, sim["envs"][k]), "fmt%d.rs" % k)
                with open(tmp, "wb") as f:
                    f.write(pr["bytes"])
                p = subprocess.run(["rustfmt", tmp], env=base_env("present"), capture_output=True)
                if open(tmp, "rb").read() != outs[(route, k)]["bytes"]:
                    viol.append({"class": "formatted-output-differs-from-rustfmt-of-plain-output", "route": route, "env": k,
                                 "detail": first_diff(open(tmp, "rb").read(), outs[(route, k)]["bytes"])})
    any_ok = any(r["ok"] for r in outs.values())
    import hashlib
    digest = hashlib.sha256(repr(sorted((k, r["status"], r["ok"], hashlib.sha256(r["bytes"] or b"").hexdigest(), r["canary"]) for k, r in outs.items())).encode()).hexdigest()
    return viol, {"children": children, "canaries": canaries, "any_ok": any_ok, "digest": digest}


def first_diff(a, b):
    a = a or b""
    b = b or b""
    n = min(len(a), len(b))
    i = next((j for j in range(n) if a[j] != b[j]), n)
    lo = max(0, i - 60)
    return "first difference at byte %d: %r vs %r" % (i, a[lo:i + 60].decode(errors="replace"), b[lo:i + 60].decode(errors="replace"))


def env_difference(sim):
    d = set()
    for e in sim["envs"][1:]:
        for f in FACTORS:
            if e[f] != sim["envs"][0][f]:
                d.add(f)
    return tuple(sorted(d))


def minimise(sim, v, d):
    """Equalise environment factors one at a time while the same class of difference stays."""
    best = json.loads(json.dumps(sim))
    if "env_a" in v:
        best["envs"] = [best["envs"][v["env_a"]], best["envs"][v["env_b"]]]
    elif "env" in v:
        best["envs"] = [best["envs"][v["env"]]] * 1 + [best["envs"][(v["env"] + 1) % len(best["envs"])]]
    n = 0
    for f in FACTORS:
        if len(best["envs"]) < 2 or best["envs"][0][f] == best["envs"][1][f]:
            continue
        cand = json.loads(json.dumps(best))
        cand["envs"][1][f] = cand["envs"][0][f]
        n += 1
        sd = os.path.join(d, "min%d" % n)
        os.makedirs(sd)
        try:
            viol, _ = execute_sim(cand, sd)
        finally:
            shutil.rmtree(sd, ignore_errors=True)
        if any(x["class"] == v["class"] and x.get("route") == v.get("route") for x in viol):
            best = cand
    return best


def run(tier, seed, replay_path=None):
    t0 = time.time()
    d = run_dir("c16")
    try:
        if replay_path:
            return replay(replay_path, d)
        pool = procsim.grammar_pool()
        n = int(os.environ.get("VERIF_NSIMS", {"quick": 150, "thorough": 5000}[tier]))
        results = [None] * n

        def one(i):
            sim = gen_sim(seed, i, pool)
            sd = os.path.join(d, "s%06d" % i)
            os.makedirs(sd)
            try:
                return sim, execute_sim(sim, sd)
            finally:
                shutil.rmtree(sd, ignore_errors=True)

        with ThreadPoolExecutor(NCPU) as ex:
            for i, r in enumerate(ex.map(one, range(n))):
                results[i] = r
        # determinism self-test: the first simulations once more; every child's status, output and canary must be identical
        nself = min(n, 12 if tier == "quick" else 60)
        diffs = 0
        for i in range(nself):
            sim2, (viol2, info2) = one(i)
            if info2["digest"] != results[i][1][1]["digest"]:
                diffs += 1
        if diffs:
            raise HarnessError("determinism self-test: %d of %d simulations differed between two executions" % (diffs, nself))
        known = [f for f in load_known_findings().get("findings", []) if f.get("property") == "C16"]
        canaries = set()
        children = 0
        triples = set()
        factor_varied = {f: 0 for f in FACTORS}
        ok_sims = 0
        samples = []
        reported = []
        known_hit = {}
        for sim, (viol, info) in results:
            canaries |= info["canaries"]
            children += info["children"]
            ok_sims += 1 if info["any_ok"] else 0
            diff = env_difference(sim)
            for f in diff:
                factor_varied[f] += 1
            if info["any_ok"] and diff:
                triples.add((sim["grammar_name"], json.dumps(sim["derives"]), sim["ctx"], sim["prefix"], sim["format"], diff))
            if len(samples) < 3:
                samples.append({"simulation": sim["id"], "grammar": sim["grammar_name"], "derives": sim["derives"], "user_context": sim["ctx"],
                                "prefix": sim["prefix"], "format": sim["format"], "environment_a": sim["envs"][0], "environment_b": sim["envs"][1]})
            for v in viol:
                kf = next((k for k in known if k.get("class") == v["class"] and k.get("route") == v.get("route") and k.get("grammar") in (None, sim["grammar_name"])), None)
                if kf:
                    known_hit[kf["id"]] = kf
                else:
                    reported.append((sim, v))
        for kid, kf in sorted(known_hit.items()):
            log("KNOWN-FINDING: property=C16 %s: %s" % (kid, kf["what"]))
        macro = macro_route_check(seed, tier)
        nviol = 0
        seen = set()
        for sim, v in reported:
            key = (v["class"], v.get("route"))
            if key in seen:
                continue
            seen.add(key)
            nviol += 1
            if nviol > 6:
                continue
            m = minimise(sim, v, d)
            sd = os.path.join(d, "final%d" % nviol)
            os.makedirs(sd)
            mv, _ = execute_sim(m, sd)
            shutil.rmtree(sd, ignore_errors=True)
            same = [x for x in mv if x["class"] == v["class"] and x.get("route") == v.get("route")]
            use = m if same else sim
            path = write_replay("C16", "%d-%d-%s-%s" % (seed, sim["id"], v["class"], short_hash(use)), {
                "property": "C16", "seed": seed, "class": v["class"], "route": v.get("route"), "violation": same[0] if same else v,
                "differing_factors": list(env_difference(use)), "simulation": use, "unminimised_simulation": sim,
                "grammar_text": bytes.fromhex(sim["grammar_hex"]).decode(errors="replace"),
                "note": "replay: ./check C16 --replay <this file> re-runs all routes in the recorded environments"})
            log("VIOLATION property=C16 replay=%s" % path)
            log("  %s (%s, grammar %s): %s" % (v["class"], v.get("route"), sim["grammar_name"], (same[0] if same else v)["detail"][:300]))
        if macro.get("violation"):
            nviol += 1
            path = write_replay("C16", "%d-macro-route" % seed, {"property": "C16", "class": "macro-route", "seed": seed, "macro": macro,
                                                                  "note": "replay: ./check C16 --replay <this file> rebuilds and runs the macro_route crate"})
            log("VIOLATION property=C16 replay=%s" % path)
            log("  macro route: %s" % macro["violation"][:400])
        wall = time.time() - t0
        if len(canaries) < 2 and n >= 20:
            raise HarnessError("the entropy seam did not move hash order in the children (one canary order only)")
        if ok_sims * 2 < n:
            raise HarnessError("fewer than half of the simulations compiled successfully")
        coverage = {
            "evaluations": n,
            "distinct_nontrivial": len(triples),
            "rule": ("one evaluation = one (grammar, derive set, user context, prefix, format) compiled through every applicable route (library, peginator-cli, Compile::file, "
                     "Compile::directory, run_exit_on_error) in 2..4 seeded process environments, each route in a fresh child under the shim and in its own directory. distinct = "
                     "distinct (grammar, settings, set of environment factors that differed); non-trivial = at least one route compiled successfully and at least one factor differed"),
            "samples": samples,
            "children": children,
            "distinct_hash_orders_seen_in_children": len(canaries),
            "environment_factor_varied_in_sims": factor_varied,
            "grammar_pool": len(pool),
            "macro_route": macro,
            "faults_fired": {"entropy_reseeded": factor_varied["entropy"], "clock_moved": factor_varied["clock"], "heap_layout_moved": factor_varied["heap_pad"]},
            "runs_per_hour": int(n / max(wall, 1e-6) * 3600),
            "known_findings_hit": sorted(known_hit),
            "determinism_selftest": {"simulations_run_twice": nself, "differences": 0},
            "real_components": ["peginator_codegen library route and Compile (driver, linked from the working tree)", "peginator-cli built from /repo/cli", "peginate! expanded by rustc (macro_route crate)", "rustfmt"],
            "stubbed_components": ["entropy (hash seeds), wall clock and heap layout of every child are seeded by the shim; ASLR off", "environment variables, cwd, path spelling, stdout kind (pipe, file, terminal), CPU affinity (available_parallelism) chosen by the orchestrator"],
        }
        write_evidence("C16", tier, seed, "exploration", coverage, wall, nviol, [
            "BUILD_TIME is a constant of the build the check made, so same-route outputs are compared including the header",
            "the CLI cannot express a user context type or the empty derive set; those settings are compared between the library and Compile routes only",
            "macro route: same types = same set of type names, same size/alignment, same derived traits and same Debug renderings on seeded inputs, in a crate that compiles both",
        ])
        if nviol:
            return 1
        log("C16 %s: %d simulations (%d children), %d distinct non-trivial, %d hash orders seen, macro route %s, 0 violations (%.1fs)" % (
            tier, n, children, len(triples), len(canaries), macro.get("status"), wall))
        return 0
    finally:
        cleanup_run_dir(d)


def macro_route_check(seed, tier):
    """peginate! and the library route must give the same types and behaviour; built under two entropy seeds."""
    crate = os.path.join(SIM_DIR, "macro_route")
    if not os.path.isdir(crate):
        return {"status": "not built yet"}
    t0 = time.time()
    reports = []
    for k in range(2):
        ent = derive(seed, "c16-macro", k) >> 2
        env = dict(os.environ)
        env.update(cargo_env())
        env.update(shim_env(entropy=ent))
        env["VERIF_MACRO_NONCE"] = "%d-%d" % (int(time.time() * 1000), k)  # forces re-expansion of the macro in every run
        tdir = os.path.join(TARGET, "macro%d" % k)
        p = subprocess.run([LAUNCH, "cargo", "build", "--offline", "--quiet", "--manifest-path", os.path.join(crate, "Cargo.toml"), "--target-dir", tdir],
                           env=env, capture_output=True)
        if p.returncode != 0:
            err = p.stderr.decode(errors="replace")
            # a compile error inside the macro_route crate means the two routes do not give interchangeable types
            return {"status": "build failed", "violation": "macro_route crate does not compile: " + err[-1500:], "entropy": ent}
        r = subprocess.run([LAUNCH, os.path.join(tdir, "debug", "macro_route"), str(seed & 0xFFFFFFFF)], env=env, capture_output=True, timeout=120)
        out = r.stdout.decode(errors="replace")
        if r.returncode != 0:
            return {"status": "mismatch", "violation": out[-1500:] + r.stderr.decode(errors="replace")[-500:], "entropy": ent}
        reports.append(out)
    if reports[0] != reports[1]:
        return {"status": "mismatch", "violation": "macro_route output differs between two builds under different entropy: " + first_diff(reports[0].encode(), reports[1].encode())}
    last = reports[0].strip().splitlines()[-1] if reports[0].strip() else ""
    return {"status": "ok", "summary": last, "builds_under_different_entropy": 2, "wall_s": round(time.time() - t0, 1)}


def replay(path, d):
    r = json.load(open(path))
    if r.get("class") == "macro-route":
        m = macro_route_check(r["seed"], "quick")
        if m.get("violation"):
            log(m["violation"][:1500])
            log("VIOLATION property=C16 replay=%s" % path)
            return 1
        log("replay: macro route agrees now")
        return 0
    sim = r["simulation"]
    sd = os.path.join(d, "replay")
    os.makedirs(sd)
    viol, _ = execute_sim(sim, sd)
    same = [x for x in viol if x["class"] == r["class"] and x.get("route") == r.get("route")]
    if same:
        log("  %s (%s): %s" % (same[0]["class"], same[0].get("route"), same[0]["detail"][:600]))
        log("VIOLATION property=C16 replay=%s" % path)
        return 1
    log("replay: no %s difference any more" % r["class"])
    return 0
