"""miri-sched (C20): concurrent parse calls under Miri's seeded scheduler: preemption inside
rule bodies, data races and undefined behaviour.  One Miri seed is one repeatable execution."""
import json
import os
import re
import subprocess
import time

from common import EVIDENCE_DIR, SIM_DIR, TARGET, HarnessError, cargo_env, log, write_replay

MIRI_TARGET = os.path.join(TARGET, "miri")


def miri_cmd(flags, args):
    env = dict(os.environ)
    env.update(cargo_env())
    env["SIMCORPUS_SMALL"] = "1"
    env["MIRIFLAGS"] = flags
    cmd = ["cargo", "+nightly", "miri", "run", "--offline", "-q", "-p", "miri_threads", "--target-dir", MIRI_TARGET, "--"] + [str(a) for a in args]
    return cmd, env


def run_miri(flags, args, timeout):
    cmd, env = miri_cmd(flags, args)
    try:
        p = subprocess.run(cmd, cwd=SIM_DIR, env=env, capture_output=True, timeout=timeout)
    except subprocess.TimeoutExpired:
        raise HarnessError("miri run timed out after %ds" % timeout)
    return p


def first_use_reference(prog_seed, mode="first-ref"):
    """The first-use rounds are judged against results from ANOTHER process: the same program built natively (same reduced
    corpus) and run sequentially in mode `first-ref`.  A corruption that sticks to the process once two threads have
    collided would spoil a reference computed inside the Miri process in the same way as the results it is compared with."""
    env = dict(os.environ)
    env.update(cargo_env())
    env["SIMCORPUS_SMALL"] = "1"
    tdir = os.path.join(TARGET, "mirinative")
    p = subprocess.run(["cargo", "build", "--offline", "-q", "-p", "miri_threads", "--target-dir", tdir], cwd=SIM_DIR, env=env, capture_output=True)
    if p.returncode != 0:
        raise HarnessError("native build of miri_threads failed:\n" + p.stderr.decode(errors="replace")[-3000:])
    r = subprocess.run([os.path.join(tdir, "debug", "miri_threads"), str(prog_seed), "0", mode], capture_output=True, timeout=600)
    if r.returncode != 0 or b"REF\t" not in r.stdout:
        raise HarnessError("native reference run of miri_threads failed:\n" + r.stderr.decode(errors="replace")[-2000:])
    os.makedirs(os.path.join(TARGET, "run"), exist_ok=True)
    path = os.path.join(TARGET, "run", "miri-%s-%d.txt" % (mode, prog_seed))
    with open(path, "wb") as f:
        f.write(r.stdout)
    return path


def classify(stderr, stdout):
    text = stderr + "\n" + stdout
    if "DIFFERENCE" in stdout:
        return "result-differs-from-sequential"
    if "Data race detected" in text or "data race" in text.lower():
        return "data-race"
    if "Undefined Behavior" in text:
        return "undefined-behaviour"
    if "panicked at" in text:
        return "panic"
    if "deadlock" in text.lower():
        return "deadlock"
    return None


def run(tier, seed, replay_path=None):
    t0 = time.time()
    nseeds = int(os.environ.get("VERIF_MIRI_SEEDS", 8 if tier == "quick" else 128))
    njobs = 16
    start = seed % 100000
    prog_seed = seed & 0xFFFF
    base = "-Zmiri-preemption-rate=0.1 -Zmiri-disable-isolation"
    if replay_path:
        r = json.load(open(replay_path))
        if ("first" in r["args"] or "lockstep" in r["args"]) and len(r["args"]) > 3:
            # the out-of-process reference is made again from the current working tree
            r["args"] = r["args"][:3] + [first_use_reference(int(r["args"][0]), "first-ref" if "first" in r["args"] else "lockstep-ref")]
        p = run_miri(r["miriflags"], r["args"], 1800)
        kind = classify(p.stderr.decode(errors="replace"), p.stdout.decode(errors="replace"))
        if p.returncode != 0 and kind:
            log(p.stdout.decode(errors="replace")[-1500:])
            log("\n".join(l for l in p.stderr.decode(errors="replace").splitlines() if "error" in l.lower() or "race" in l.lower())[-1500:])
            log("VIOLATION property=C20 replay=%s" % replay_path)
            return 1
        log("replay: Miri run is clean now")
        return 0
    # two batches: the general job mix, and one where all threads parse inputs with long whitespace runs through the
    # built-in skipper at the same time (shared state in the hand-written terminal matchers is only reachable this way)
    nws = int(os.environ.get("VERIF_MIRI_WS_SEEDS", 16 if tier == "quick" else 256))
    # third batch: one large input on a fully memoized variant among small @leftrec jobs (resources handed from one
    # parse to the next - tables, buffers, pools - come back large while other threads ask for theirs)
    npool = int(os.environ.get("VERIF_MIRI_POOL_SEEDS", 4 if tier == "quick" else 64))
    # the general batch is split: sequential reference before the threads / after them (lazily initialised state is then
    # first touched concurrently)
    batches = [("general", start, nseeds - nseeds // 2, njobs, []), ("general-late", start + 300000, nseeds // 2, njobs, ["late"]),
               ("whitespace", start + 500000, nws, 12, ["ws"]), ("pool", start + 700000, npool, 6, ["pool"]),
               # one round per grammar, three threads start the same parses at once (first use of every feature under contention)
               # (first-use and lock-step rounds cost Miri about 15 s per seed and core: 4 seeds quick, 16 thorough)
               ("first-use", start + 900000, 4 if tier == "quick" else 16, 0, ["first"]),
               # lock-step rounds: a rendezvous before every parse, every parse a short text that fails somewhere new
               ("lock-step", start + 1100000, 4 if tier == "quick" else 16, 0, ["lockstep"]),
               # tracing rounds: a traced parse a few hundred rule calls deep next to threads that begin and end short traces
               # (every traced line costs Miri tens of milliseconds and megabytes: 45..60 rule calls deep in the quick tier,
               # 262..277 in 4 seeds of the thorough tier, about 2.5 GB each; Miri runs the seeds of one batch inside one process)
               ("tracing", start + 1300000, 4, 0, ["trace", "45" if tier == "quick" else "262"])]
    info = {"batches": [], "threads": 3, "preemption_rate": 0.1, "clean_runs": 0, "seeds": sum(b[2] for b in batches), "wall_s": None, "violation": None}
    rc = 0
    for bname, bstart, bn, bjobs, extra in batches:
        if bn <= 0 or rc:
            continue
        if bname == "first-use":
            extra = extra + [first_use_reference(prog_seed)]
        if bname == "lock-step":
            extra = extra + [first_use_reference(prog_seed, "lockstep-ref")]
        flags = "-Zmiri-many-seeds=%d..%d %s" % (bstart, bstart + bn, base)
        args = [prog_seed, bjobs] + extra
        p = run_miri(flags, args, 3600)
        out = p.stdout.decode(errors="replace")
        err = p.stderr.decode(errors="replace")
        ok_runs = out.count("MIRI_THREADS ok")
        info["batches"].append({"name": bname, "seed_range": [bstart, bstart + bn], "program_seed": prog_seed, "jobs": bjobs, "clean_runs": ok_runs})
        info["clean_runs"] += ok_runs
        if p.returncode != 0:
            kind = classify(err, out)
            if kind is None:
                raise HarnessError("miri run failed without a recognisable verdict:\n" + err[-3000:])
            # find one failing seed so that the replay is a single repeatable execution
            failing = None
            for s in range(bstart, bstart + bn):
                q = run_miri("-Zmiri-seed=%d %s" % (s, base), args, 1800)
                if q.returncode != 0 and classify(q.stderr.decode(errors="replace"), q.stdout.decode(errors="replace")):
                    failing = s
                    err = q.stderr.decode(errors="replace")
                    out = q.stdout.decode(errors="replace")
                    break
            detail = "\n".join(l for l in (out + "\n" + err).splitlines() if any(w in l for w in ("DIFFERENCE", "error", "race", "Undefined", "panicked")))[:3000]
            path = write_replay("C20", "%d-miri-%s-%s" % (seed, kind, failing), {
                "property": "C20", "kind": "miri:" + kind, "seed": seed, "miri_seed": failing, "batch": bname,
                "miriflags": ("-Zmiri-seed=%d %s" % (failing, base)) if failing is not None else flags, "args": args,
                "detail": detail, "note": "replay: ./check C20 --replay <this file> re-runs this Miri seed"})
            log("VIOLATION property=C20 replay=%s" % path)
            log("  miri (%s batch): %s (miri seed %s)" % (bname, kind, failing))
            info["violation"] = kind
            rc = 1
        elif ok_runs != bn:
            raise HarnessError("miri reported success but only %d of %d runs printed their verdict" % (ok_runs, bn))
    info["wall_s"] = round(time.time() - t0, 1)
    # merge into the evidence file written by the parse-sim part
    ep = os.path.join(EVIDENCE_DIR, "C20.json")
    ev = json.load(open(ep))
    ev["coverage"]["miri_sched"] = info
    ev["wall_s"] = round(ev["wall_s"] + info["wall_s"], 2)
    if rc:
        ev["violations"] = ev.get("violations", 0) + 1
    with open(ep + ".tmp", "w") as f:
        json.dump(ev, f, indent=1, ensure_ascii=False)
        f.write("\n")
    os.replace(ep + ".tmp", ep)
    if rc == 0:
        log("C20 miri-sched: %s on 3 threads, no data race, UB or differing result (%.1fs)" % (", ".join("%d %s" % (b["seed_range"][1] - b["seed_range"][0], b["name"]) for b in info["batches"]), info["wall_s"]))
    return rc
