def run(tier, seed):
    return 0
