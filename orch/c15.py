"""C15: the compiler answers with code or an error, and says so.
Fault enumeration: (fault class) x (route), each cell in a fresh child under the shim."""
import json
import os
import shutil
import threading
import time
from concurrent.futures import ThreadPoolExecutor

import procsim
from common import (NCPU, HarnessError, Rng, cleanup_run_dir, cli_bin, derive, load_known_findings, log, run_dir,
                    short_hash, sim_bin, write_evidence, write_replay)
from procsim import base_env, run_child, split_driver_output

ROUTES = ["lib", "cli", "cli_trace", "cli_derives", "compile_file", "compile_dir", "compile_exit"]
# --ast-only / --railroad stop before code generation: only reading and parsing failures concern them
CLI_PARSE_ONLY_ROUTES = ["cli_ast", "cli_railroad"]
IO_ROUTES = ["cli", "cli_trace", "cli_derives", "cli_ast", "cli_railroad", "compile_file", "compile_dir", "compile_exit"]
COMPILE_ROUTES = ["compile_file", "compile_dir", "compile_exit"]

VALID = b"@export\nTop = items:Item {',' items:Item} $;\nItem = @:Num | @:Word;\n@string\n@no_skip_ws\nNum = {'0'..'9'}+;\n@string\n@no_skip_ws\nWord = {'a'..'z'}+;\n"

# documented restrictions: (id, grammar text, extra settings)
RESTRICTIONS = [
    ("field_in_negative_lookahead", "Zz1 = !(x:Zz2) 'a';\nZz2 = 'b';\n", {}),
    ("field_in_positive_lookahead", "Zz1 = &(x:Zz2) 'a';\nZz2 = 'b';\n", {}),
    ("field_in_nested_lookahead", "Zz1 = 'q' !('r' [y:Zz2]) 'a';\nZz2 = 'b';\n", {}),
    ("field_in_lookahead_without_group", "Zz1 = !x:Zz2 'a';\nZz2 = 'b';\n", {}),
    ("field_in_lookahead_in_closure", "Zz1 = !({y:Zz2}) 'a';\nZz2 = 'b';\n", {}),
    ("field_in_lookahead_in_choice", "Zz1 = &('a' | y:Zz2) 'a';\nZz2 = 'b';\n", {}),
    ("field_in_lookahead_via_include", "Zz1 = !>Zz3 'a';\nZz3 = x:Zz2;\nZz2 = 'b';\n", {}),
    ("field_in_lookahead_via_grouped_include", "Zz1 = &(>Zz3) 'a';\nZz3 = 'q' [x:Zz2];\nZz2 = 'b';\n", {}),
    ("field_in_lookahead_via_nested_include", "Zz1 = 'p' !('q' >Zz3) 'a';\nZz3 = {x:Zz2};\nZz2 = 'b';\n", {}),
    ("field_in_lookahead_via_include_same_name_outside", "Zz1 = x:Zz2 !>Zz3;\nZz3 = x:Zz2;\nZz2 = 'b';\n", {}),
    ("field_in_lookahead_same_name_outside", "Zz1 = x:Zz2 !(x:Zz2);\nZz2 = 'b';\n", {}),
    ("override_in_lookahead", "Zz1 = !(@:Zz2) 'a';\nZz2 = 'b';\n", {}),
    ("field_in_lookahead_in_string_rule_user", "Zz1 = n:Zz4;\n@no_skip_ws\nZz4 = 'a' &(c:Zz2);\nZz2 = 'b';\n", {}),
    ("override_mixed_in_optional", "Zz1 = @:Zz2 [c:Zz3];\nZz2 = 'b';\nZz3 = 'c';\n", {}),
    ("override_mixed_via_include", "Zz1 = @:Zz2 >Zz4;\nZz4 = c:Zz3;\nZz2 = 'b';\nZz3 = 'c';\n", {}),
    ("override_mixed_in_closure", "Zz1 = {c:Zz3} @:Zz2;\nZz2 = 'b';\nZz3 = 'c';\n", {}),
    ("override_mixed_with_named_field", "Zz1 = @:Zz2 c:Zz3;\nZz2 = 'b';\nZz3 = 'c';\n", {}),
    ("override_mixed_in_other_arm", "Zz1 = @:Zz2 | c:Zz3;\nZz2 = 'b';\nZz3 = 'c';\n", {}),
    ("multitype_override_in_optional", "Zz1 = @:Zz2 | [@:Zz3];\nZz2 = 'b';\nZz3 = 'c';\n", {}),
    ("multitype_override_in_closure", "Zz1 = @:Zz2 | {@:Zz3};\nZz2 = 'b';\nZz3 = 'c';\n", {}),
    ("multitype_override_whole_optional", "Zz1 = [@:Zz2 | @:Zz3];\nZz2 = 'b';\nZz3 = 'c';\n", {}),
    ("multitype_override_whole_closure", "Zz1 = {@:Zz2 | @:Zz3};\nZz2 = 'b';\nZz3 = 'c';\n", {}),
    ("multitype_override_twice_in_sequence", "Zz1 = @:Zz2 @:Zz3;\nZz2 = 'b';\nZz3 = 'c';\n", {}),
    ("multitype_override_missing_in_one_arm", "Zz1 = @:Zz2 | @:Zz3 | 'x';\nZz2 = 'b';\nZz3 = 'c';\n", {}),
    ("multitype_override_optional_via_include", "Zz1 = @:Zz2 | >Zz4;\nZz4 = [@:Zz3];\nZz2 = 'b';\nZz3 = 'c';\n", {}),
    ("export_on_grouped_override", "@export\nZz1 = ('x' @:Zz2);\nZz2 = 'b';\n", {}),
    ("export_position_on_plain_override", "@export\n@position\nZz1 = @:Zz2;\nZz2 = 'b';\n", {}),
    ("position_on_plain_char_override", "@position\nZz1 = @:char;\n", {}),
    ("export_on_plain_override", "@export\nZz1 = @:Zz2;\nZz2 = 'b';\n", {}),
    ("position_on_plain_override", "@position\nZz1 = @:Zz2;\nZz2 = 'b';\n", {}),
    ("string_with_export", "@export\n@string\nZz1 = 'a';\n", {}),
    ("string_with_export_reversed", "@string\n@export\nZz1 = 'a';\n", {}),
    ("string_position_with_export", "@export\n@position\n@string\nZz1 = 'a';\n", {}),
    ("skipping_whitespace_string_rule", "Zz1 = 'a';\n@string\nWhitespace = {' '};\n", {}),
    ("skipping_whitespace_rule", "Zz1 = 'a';\nWhitespace = ' ';\n", {}),
    ("memoize_without_clone", "@memoize\nZz1 = 'a';\n", {"derives": ["Debug"]}),
    ("memoize_without_clone_empty_derives", "@memoize\nZz1 = 'a';\n", {"derives": []}),
    # two (or three) restrictions broken by ONE rule: each must still be an error
    ("double_export_string_and_skipping_whitespace", "Zz1 = 'a';\n@export\n@string\nWhitespace = {' '};\n", {}),
    ("double_memoize_without_clone_and_skipping_whitespace", "Zz1 = 'a';\n@memoize\nWhitespace = {' '};\n", {"derives": ["Debug"]}),
    ("double_export_string_and_memoize_without_clone", "@export\n@string\n@memoize\nZz1 = {'a'..'z'}+;\n", {"derives": ["Debug"]}),
    ("double_export_on_plain_override_and_memoize_without_clone", "@export\n@memoize\nZz1 = @:Zz2;\nZz2 = 'b';\n", {"derives": ["Debug"]}),
    ("double_position_on_plain_override_and_memoize_without_clone", "@position\n@memoize\nZz1 = @:Zz2;\nZz2 = 'b';\n", {"derives": ["Debug"]}),
    ("triple_export_string_memoize_skipping_whitespace", "Zz1 = 'a';\n@export\n@string\n@memoize\nWhitespace = {' '};\n", {"derives": ["Debug"]}),
    ("double_field_in_lookahead_and_mixed_override", "Zz1 = !(x:Zz2) @:Zz2 c:Zz3;\nZz2 = 'b';\nZz3 = 'c';\n", {}),
    ("double_nonascii_insensitive_and_invalid_codepoint", "Zz1 = i'\u00e9' '\\u{D800}';\n", {}),
    ("double_include_missing_and_string_export", "@export\n@string\nZz1 = 'a' >ZzNope;\n", {}),
    ("memoize_string_rule_without_clone", "@memoize\n@string\nZz1 = {'a'..'z'}+;\n", {"derives": ["Debug"]}),
    ("memoize_string_position_rule_without_clone", "@string\n@position\n@memoize\n@no_skip_ws\nZz1 = {'a'..'z'}+;\n", {"derives": ["Debug"]}),
    ("memoize_position_rule_without_clone", "@memoize\n@position\nZz1 = a:Zz2;\nZz2 = 'b';\n", {"derives": ["Debug", "PartialEq"]}),
    ("memoize_override_enum_without_clone", "@memoize\nZz1 = @:Zz2 | @:Zz3;\nZz2 = 'b';\nZz3 = 'c';\n", {"derives": ["Debug"]}),
    ("memoize_plain_override_without_clone", "@memoize\nZz1 = 'x' @:Zz2;\n@string\nZz2 = 'b';\n", {"derives": ["Debug"]}),
    ("memoize_char_override_without_clone", "@memoize\nZz1 = @:char;\n", {"derives": []}),
    ("memoize_export_without_clone", "@export\n@memoize\nZz1 = a:Zz2;\nZz2 = 'b';\n", {"derives": ["Debug", "Copy"]}),
    ("memoize_second_rule_without_clone", "Zz1 = a:Zz2;\n@memoize\n@no_skip_ws\nZz2 = 'b';\n", {"derives": ["Debug"]}),
    ("memoize_leftrec_without_clone", "@memoize\n@leftrec\nZz1 = Zz1 'a' | 'a';\n", {"derives": ["Debug", "PartialEq"]}),
    ("nonascii_insensitive_in_closure", "Zz1 = {'a' | i\"x\u0151\"};\n", {}),
    ("nonascii_insensitive_in_lookahead", "Zz1 = !i'\u00df' char;\n", {}),
    ("nonascii_insensitive_hex_escape", "Zz1 = i'\\xe9';\n", {}),
    ("nonascii_insensitive_hex_escape_in_string", "Zz1 = i\"caf\\xe9\";\n", {}),
    ("nonascii_insensitive_u4_escape", "Zz1 = i'x\\u00e9';\n", {}),
    ("nonascii_insensitive_braced_escape", "Zz1 = i'\\u{e9}';\n", {}),
    ("nonascii_insensitive_U8_escape", "Zz1 = i'\\U000000e9y';\n", {}),
    ("nonascii_insensitive_escape_not_first", "Zz1 = i'abc\\u{151}';\n", {}),
    ("nonascii_insensitive_literal", "Zz1 = i'\u00e9';\n", {}),
    ("nonascii_insensitive_string", "Zz1 = i'stra\u00dfe';\n", {}),
    ("invalid_codepoint_surrogate", "Zz1 = '\\u{D800}';\n", {}),
    ("invalid_codepoint_surrogate_u4", "Zz1 = '\\uD800';\n", {}),
    ("invalid_codepoint_too_large", "Zz1 = '\\U00110000';\n", {}),
    ("invalid_codepoint_in_range", "Zz1 = 'a'..'\\u{DFFF}';\n", {}),
    ("invalid_codepoint_U_surrogate", "Zz1 = '\\U0000DABC';\n", {}),
    ("invalid_codepoint_braces_too_large", "Zz1 = '\\u{110000}';\n", {}),
    ("invalid_codepoint_in_string", "Zz1 = 'ab\\u{DC00}cd';\n", {}),
    ("invalid_codepoint_in_char_rule", "@char\nZz1 = 'a' | '\\u{D800}';\n", {}),
    ("invalid_codepoint_in_char_rule_range", "@char\nZz1 = '\\uD800'..'\\uDFFF';\n", {}),
    ("invalid_codepoint_insensitive", "Zz1 = i'\\u{DFFF}';\n", {}),
    ("include_missing_rule_in_optional", "Zz1 = 'a' [>ZzNope];\n", {}),
    ("include_missing_rule_in_lookahead", "Zz1 = !>ZzNope 'a';\n", {}),
    ("include_char_rule_in_closure", "Zz1 = {>Zz2};\n@char\nZz2 = 'c';\n", {}),
    ("include_extern_rule_in_choice", "Zz1 = 'a' | >Zz2;\n@extern(zz_f -> u32)\nZz2;\n", {}),
    ("include_missing_through_include", "Zz1 = >Zz2;\nZz2 = 'a' >ZzNope;\n", {}),
    ("include_missing_rule", "Zz1 = >ZzNope;\n", {}),
    ("include_char_rule", "Zz1 = >Zz2;\n@char\nZz2 = 'c';\n", {}),
    ("include_extern_rule", "Zz1 = >Zz2;\n@extern(zz_f)\nZz2;\n", {}),
]

SYNTAX = [
    ("syntax_double_semicolon", "Zz1 = 'a';;\n"),
    ("syntax_unclosed_group", "Zz1 = ('a' ;\n"),
    ("syntax_missing_equals", "Zz1 'a';\n"),
    ("syntax_missing_semicolon_at_end", "Zz1 = 'a'\n"),
    ("syntax_unterminated_string", "Zz1 = 'a;\n"),
    ("syntax_unknown_directive", "@nosuch\nZz1 = 'a';\n"),
    ("syntax_bad_escape", "Zz1 = '\\q';\n"),
    ("syntax_trailing_garbage", "Zz1 = 'a';\n)\n"),
    ("syntax_dangling_choice_bar_then_brace", "Zz1 = 'a' | };\n"),
    ("syntax_char_rule_with_sequence", "@char\nZz1 = 'a' 'b';\n"),
    ("syntax_extern_with_body", "@extern(zz_f)\nZz1 = 'a';\n"),
    ("syntax_short_unicode_escape", "Zz1 = '\\u12';\n"),
    ("syntax_multibyte_at_error", "Zz1 = '\u0151\u2192' \u0151\u0171;\n"),
    ("syntax_error_at_eof_without_newline", "Zz1 = 'a' |"),
    ("syntax_very_long_line", "Zz1 = " + "'a' " * 5000 + ";;\n"),
    ("syntax_crlf_lines", "Zz1 = 'a';\r\n;;\r\n"),
    ("syntax_only_garbage", "%%%%"),
    ("syntax_error_on_empty_line", "\n\n\n=\n"),
    ("syntax_tab_indented", "\t\tZz1 = ('a';\n"),
    ("syntax_nul_byte", "Zz1 = 'a';\x00\n"),
    ("syntax_multibyte_before_error_column", "Zz1 = '\u00e9\u00e9\u00e9\u00e9' ) 'x';\n"),
]

for _pad in range(6):
    # the error column moves byte by byte relative to the multi-byte characters around it (any windowing of the
    # offending line at raw byte offsets lands inside a character for some of them)
    SYNTAX.append(("syntax_long_multibyte_line_%d" % _pad, "Zz1 = " + "x" * _pad + " '\u00e9\u2192\u0171' " * 40 + "} ? 'caf\u00e9' " + "'\u00e9\u2192' " * 30 + ";\n"))
    SYNTAX.append(("syntax_long_multibyte_line_mid_%d" % _pad, "# \u00e9\u00e9\u00e9\nZz1 = " + "'\U0001F600' " * (20 + _pad) + ")" + " '\u00e9' " * 50 + ";\n"))

TRICKY_LEX = """@export
Top = {items:Item} $\u00ab\u00bb;
Item = @:Quote | @:Hash | @:Str | @:Esc | @:Word\u00ab\u00bb;
Quote = '\\'' | '"'\u00ab\u00bb;
Hash = '\\'' '#' | '#'\u00ab\u00bb;
Str = "\\"" {!"\\"" char} "\\"" | "'" {!"'" char} "'"\u00ab\u00bb;
Esc = '\\\\' 'n' | '\\\\' '\\'' | "\\\\" "#"\u00ab\u00bb;
# it's a comment with a quote ' and a hash # inside
@string
@no_skip_ws
Word = {'a'..'z' | '#' | '\\''}+\u00ab\u00bb; # trailing comment with ' quote
@no_skip_ws
Whitespace = {Comment | ' ' | '\\n'}\u00ab\u00bb;
@no_skip_ws
Comment = '/' '/' {!'\\n' char} '\\n'\u00ab\u00bb; # last line comment
"""

# classes the property's rationale names as reaching panic!/unbounded recursion instead of an error
RATIONALE = [
    ("rule_name_starts_with_digit", "1 = 'a';\n", {}),
    ("rule_name_underscore", "_ = 'a';\n", {}),
    ("rule_name_crate", "crate = 'a';\n", {}),
    ("rule_name_self", "self = 'a';\n", {}),
    ("rule_name_Self", "Self = 'a';\n", {}),
    ("rule_name_super", "super = 'a';\n", {}),
    ("field_name_starts_with_digit", "Zz1 = 1:Zz2;\nZz2 = 'b';\n", {}),
    ("field_name_underscore", "Zz1 = _:Zz2;\nZz2 = 'b';\n", {}),
    ("field_name_crate", "Zz1 = crate:Zz2;\nZz2 = 'b';\n", {}),
    ("field_name_self", "Zz1 = self:Zz2;\nZz2 = 'b';\n", {}),
    ("field_type_starts_with_digit", "Zz1 = x:2;\n2 = 'b';\n", {}),
    ("char_rule_name_starts_with_digit", "@char\n3 = 'a';\n", {}),
    ("extern_rule_name_starts_with_digit", "@extern(zz_f)\n4;\n", {}),
    ("include_cycle_direct", "Zz1 = >Zz1;\n", {}),
    ("include_cycle_mutual", "Zz1 = >Zz2;\nZz2 = >Zz1;\n", {}),
    ("include_cycle_through_optional", "Zz1 = 'x' [>Zz2];\nZz2 = {>Zz1};\n", {}),
    ("check_function_with_space", "@check(zz a)\nZz1 = 'a';\n", {}),
    ("check_function_with_dot", "@check(zz.a)\nZz1 = 'a';\n", {}),
    ("check_function_super_path", "@check(super::zz_check)\nZz1 = 'a';\n", {}),
    ("check_function_self_path", "@check(self::zz_check)\nZz1 = 'a';\n", {}),
    ("char_check_function_with_space", "@check(zz a)\n@char\nZz1 = 'a';\n", {}),
    ("extern_function_with_space", "@extern(zz a)\nZz1;\n", {}),
    ("extern_function_starts_with_digit", "@extern(1zz)\nZz1;\n", {}),
    ("extern_return_type_generic", "@extern(zz_f -> Vec<u8>)\nZz1;\n", {}),
    ("extern_return_type_reference", "@extern(zz_f -> &str)\nZz1;\n", {}),
    ("extern_function_super_path", "@extern(super::zz_f)\nZz1;\n", {}),
    ("include_cycle_first_of_duplicate_rules", "Zz1 = >Zz2;\nZz2 = >Zz1;\nZz2 = 'a';\n", {}),
    ("include_cycle_last_of_duplicate_rules", "Zz1 = >Zz2;\nZz2 = 'a';\nZz2 = >Zz1;\n", {}),
    ("include_cycle_self_duplicate", "Zz1 = >Zz1;\nZz1 = 'a';\n", {}),
    ("include_cycle_long_chain", "Zz1 = >Zz2;\nZz2 = 'a' [>Zz3];\nZz3 = {>Zz4};\nZz4 = 'b' | >Zz5;\nZz5 = !>Zz1 'c';\n", {}),
    ("duplicate_rule_names", "Zz1 = 'a';\nZz1 = 'b';\n", {}),
    ("duplicate_rule_name_char_and_normal", "Zz1 = 'a';\n@char\nZz1 = 'b';\n", {}),
    ("rule_referencing_itself_only", "Zz1 = Zz1;\n", {}),
    ("field_of_missing_rule", "Zz1 = x:ZzNope;\n", {}),
    ("override_cycle_mutual", "Zz1 = @:Zz2;\nZz2 = @:Zz1;\n", {}),
    ("override_cycle_self", "Zz1 = @:Zz1;\n", {}),
    ("override_cycle_in_position_enum", "@position\nZz1 = @:Zz4 | @:Zz2;\nZz2 = @:Zz3;\nZz3 = @:Zz2;\n@position\nZz4 = 'x';\n", {}),
    ("override_cycle_in_export_enum", "@export\nZz1 = @:Zz4 | @:Zz2;\nZz2 = @:Zz3;\nZz3 = @:Zz2;\nZz4 = 'x';\n", {}),
    ("override_cycle_boxed", "Zz1 = @:*Zz2;\nZz2 = 'x' @:*Zz1 | 'y' @:*Zz1;\n", {}),
    ("override_cycle_three", "Zz1 = @:Zz2;\nZz2 = @:Zz3;\nZz3 = @:Zz1;\n", {}),
    ("field_cycle_unboxed", "Zz1 = a:Zz2;\nZz2 = b:Zz1;\n", {}),
    ("leftrec_override_cycle", "@leftrec\nZz1 = @:Zz2 | @:Zz3;\nZz2 = l:*Zz1 '+';\nZz3 = @:Zz1;\n", {}),
    ("check_function_superscript_digit", "@check(zz\u00b2)\nZz1 = 'a';\n", {}),
    ("check_function_circled_letter", "@check(\u24b6)\nZz1 = 'a';\n", {}),
    ("check_function_unicode_ident", "@check(crate::m\u00f3dulo::f\u0151)\nZz1 = 'a';\n", {}),
    ("extern_function_ordinal_indicator", "@extern(\u00aaf)\nZz1;\n", {}),
    ("extern_return_type_roman_numeral", "@extern(zz_f -> T\u2160)\nZz1;\n", {}),
    ("derive_with_superscript_digit", "Zz1 = 'a';\n", {"derives": ["Debug", "De\u00b2"]}),
    ("char_rule_refers_to_itself", "@char\nZz1 = Zz1 | 'a';\n", {}),
    ("char_rule_cycle_mutual", "@char\nZz1 = Zz2 | 'a';\n@char\nZz2 = 'b' | Zz1;\n", {}),
    ("char_rule_cycle_used_by_whitespace", "Zz3 = 'x';\n@no_skip_ws\nWhitespace = {Zz1};\n@char\nZz1 = ' ' | Zz2;\n@char\nZz2 = '\\t' | Zz1;\n", {}),
    ("whitespace_calls_itself", "Zz3 = 'x';\n@no_skip_ws\nWhitespace = ' ' [Whitespace];\n", {}),
    ("whitespace_calls_skipping_rule", "Zz3 = 'x';\n@no_skip_ws\nWhitespace = {Zz1};\nZz1 = ' ' | '#' Zz2;\nZz2 = 'c';\n", {}),
    ("char_rule_refers_to_missing_rule", "@char\nZz1 = ZzNope | 'a';\n", {}),
    ("char_rule_refers_to_normal_rule", "@char\nZz1 = Zz2 | 'a';\nZz2 = 'b';\n", {}),
    ("include_of_missing_rule_long_similar_names", "Zz1 = 'a' >ParameterListOfFunctionWithDefaultsAndAttributes;\nFunctionParameterListWithDefaultsAndAttributes = 'b';\nParameterListOfMethodWithDefaultsAndAttributes = 'c';\n", {}),
    ("field_of_missing_rule_long_similar_names", "Zz1 = x:TheQuickBrownFoxJumpsOverTheLazyDogAgainAndAgainAndAgain;\nTheLazyDogJumpsOverTheQuickBrownFoxAgainAndAgainAndAgain = 'b';\n", {}),
    ("override_of_missing_rule_long_similar_names", "Zz1 = @:AnExtremelyLongRuleNameThatGoesOnAndOnAndOnWithoutEnd1 | @:Zz2;\nZz2 = 'b';\nYetAnotherExtremelyLongRuleNameThatGoesOnAndOnWithoutEnd2 = 'c';\n", {}),
    ("char_rule_refers_to_missing_rule_long_similar_names", "@char\nZz1 = LowercaseLatinLetterOrDigitOrUnderscoreCharacter | 'a';\n@char\nUppercaseLatinLetterOrDigitOrUnderscoreCharacters = 'A'..'Z';\n", {}),
    ("missing_rule_name_of_300_characters", "Zz1 = x:%s;\n%s = 'b';\n" % ("Ab" * 150, "Ba" * 150), {}),
    ("override_type_starts_with_digit", "Zz1 = @:2;\n2 = 'b';\n", {}),
    ("override_type_starts_with_digit_missing_rule", "Zz1 = 'x' @:9x;\n", {}),
    ("override_type_self", "Zz1 = @:self;\n", {}),
    ("override_type_underscore", "Zz1 = @:_ | @:Zz2;\nZz2 = 'b';\n", {}),
    ("boxed_override_type_starts_with_digit", "Zz1 = @:*7a;\n", {}),
    ("derive_is_a_path", "Zz1 = 'a';\n", {"derives": ["Debug", "Clone", "serde::Serialize"]}),
    ("derive_with_generics", "Zz1 = 'a';\n", {"derives": ["Debug", "PartialEq<u8>"]}),
    ("derive_starts_with_digit", "Zz1 = 'a';\n", {"derives": ["Debug", "1"]}),
    ("derive_is_empty_string", "Zz1 = 'a';\n", {"derives": ["Debug", ""]}),
]


def env_for(rng):
    e = base_env("present")
    if rng.coin(300):
        e["NO_COLOR"] = "1"
    if rng.coin(200):
        e["CLICOLOR_FORCE"] = "1"
    if rng.coin(300):
        e["CLICOLOR"] = rng.choice(["0", "1"])
    t = rng.choice([None, "dumb", "xterm-256color"])
    if t:
        e["TERM"] = t
    e["LANG"] = rng.choice(["C", "en_US.UTF-8", "hu_HU.UTF-8"])
    e["RUST_BACKTRACE"] = rng.choice(["0", "0", "1"])
    return e


def settings_args(route, settings):
    d = settings.get("derives")
    if d is None:
        return []
    if route.startswith("cli"):
        a = []
        for x in d:
            a += ["-d", x]
        return a  # note: the CLI cannot express the empty derive set (falls back to the default)
    return ["--no-derives"] if not d else ["--derives", ",".join(d)]


class Cell:
    def __init__(self, fault, route, expect, kind, grammar=None, settings=None, setup=None, faults=None, dest_setup=None, fmt=False, rustfmt="present", timeout=None):
        self.fault, self.route, self.expect, self.kind = fault, route, expect, kind
        self.timeout = timeout
        self.grammar = grammar  # bytes or None (setup decides)
        self.settings = settings or {}
        self.setup = setup  # name of a file-system preparation
        self.faults = faults  # shim fault spec with {G} / {D} placeholders
        self.dest_setup = dest_setup
        self.fmt = fmt
        self.rustfmt = rustfmt

    def key(self):
        return (self.fault, self.route)

    def to_json(self):
        return {"fault": self.fault, "route": self.route, "expect": self.expect, "kind": self.kind,
                "grammar": self.grammar.decode("utf-8", "backslashreplace") if self.grammar is not None else None,
                "grammar_hex": self.grammar.hex() if self.grammar is not None else None,
                "settings": {k: (v.hex() if isinstance(v, bytes) else [[("hex:" + x.hex() if isinstance(x, bytes) else x) for x in op] for op in v] if k == "script" else v) for k, v in self.settings.items()}, "setup": self.setup, "faults": self.faults, "dest_setup": self.dest_setup,
                "format": self.fmt, "rustfmt": self.rustfmt, "timeout": self.timeout}

    @staticmethod
    def from_json(j):
        g = bytes.fromhex(j["grammar_hex"]) if j.get("grammar_hex") is not None else None
        if j.get("settings") and "base" in j["settings"]:
            j["settings"]["base"] = bytes.fromhex(j["settings"]["base"])
        if j.get("settings") and "script" in j["settings"]:
            j["settings"]["script"] = [[(bytes.fromhex(x[4:]) if isinstance(x, str) and x.startswith("hex:") else x) for x in op] for op in j["settings"]["script"]]
        return Cell(j["fault"], j["route"], j["expect"], j["kind"], g, j.get("settings"), j.get("setup"), j.get("faults"),
                    j.get("dest_setup"), j.get("format", False), j.get("rustfmt", "present"), j.get("timeout"))


def execute_script(cell, d, env, entropy):
    """Several Compile values / runs inside ONE process (driver compile-script); the verdict is that of the LAST run."""
    lines = []
    for op in cell.settings["script"]:
        f = [x.replace("{D}", d) if isinstance(x, str) else x for x in op]
        if f[0] == "W":
            lines.append("W\t%s\t%s" % (f[1], f[2].hex()))
        else:
            lines.append("\t".join(f))
    sp = os.path.join(d, "cell.script")
    with open(sp, "w") as fh:
        fh.write("\n".join(lines) + "\n")
    os.makedirs(os.path.join(d, "snap"), exist_ok=True)
    c = run_child([sim_bin("driver"), "compile-script", sp, os.path.join(d, "snap")], d, env, entropy=entropy)
    info = {"status": c.status_word(), "fired": [], "dest": None}
    if c.crashed():
        return "crash", c, info
    res = [l.split("\t") for l in c.out.decode(errors="replace").splitlines() if l.startswith("RESULT\t")]
    nruns = sum(1 for op in cell.settings["script"] if op[0] == "RUN")
    if len(res) != nruns or c.rc != 0:
        return "crash", c, info
    info["script_results"] = [r[2] for r in res]
    return ("ok" if res[-1][2] == "Ok" else "fail"), c, info


def execute(cell, d, env, entropy):
    """Run one cell in directory d; returns (verdict, child, info). verdict in ok/fail/crash."""
    if cell.route == "compile_script":
        return execute_script(cell, d, env, entropy)
    os.makedirs(os.path.join(d, "src"), exist_ok=True)
    in_dir = cell.route == "compile_dir"
    gpath = os.path.join(d, "src", "g.ebnf")
    dest = os.path.join(d, "src", "g.rs") if in_dir else os.path.join(d, "out.rs")
    s = cell.setup
    if s == "missing":
        pass
    elif s == "is_dir":
        os.makedirs(gpath)
    elif s == "dangling_symlink":
        os.symlink(os.path.join(d, "nowhere.ebnf"), gpath)
    elif s == "symlink_loop":
        os.symlink(gpath, gpath)
    elif s in ("sibling_bad_last", "sibling_bad_first"):
        # two grammars side by side, one of them broken: whichever the walk meets first, the run must fail
        names = ("a.ebnf", "b.ebnf") if s == "sibling_bad_last" else ("b.ebnf", "a.ebnf")
        with open(os.path.join(d, "src", names[0]), "wb") as f:
            f.write(VALID)
        with open(os.path.join(d, "src", names[1]), "wb") as f:
            f.write(cell.grammar)
    elif s in ("nested_invalid", "nested_unreadable_dir", "nested_dangling"):
        with open(gpath, "wb") as f:
            f.write(VALID)
        deep = os.path.join(d, "src", "deep", "er")
        os.makedirs(deep)
        os.makedirs(os.path.join(d, "src", "locked"))
        with open(os.path.join(d, "src", "locked", "ok.ebnf"), "wb") as f:
            f.write(VALID)
        if s == "nested_invalid":
            with open(os.path.join(deep, "bad.ebnf"), "wb") as f:
                f.write(cell.grammar)
        elif s == "nested_dangling":
            os.symlink(os.path.join(d, "nowhere.ebnf"), os.path.join(deep, "gone.ebnf"))
    else:
        with open(gpath, "wb") as f:
            f.write(cell.grammar)
    after_success = cell.dest_setup == "after_success"
    ds = None if (after_success or cell.dest_setup == "dir_is_grammar_file") else cell.dest_setup
    if ds == "dest_is_dir":
        os.makedirs(dest)
    elif ds == "dest_parent_missing":
        dest = os.path.join(d, "nodir", "sub", "out.rs")
        if in_dir:
            ds = None
    faults = cell.faults
    if faults:
        faults = faults.replace("{G}", "g.ebnf").replace("{D}", os.path.basename(dest))
    shim_log = os.path.join(d, "shim.log")
    sa = settings_args(cell.route, cell.settings)
    if cell.route == "lib":
        argv = [sim_bin("driver"), "gen", gpath] + sa
    elif cell.route.startswith("cli"):
        flag = {"cli": [], "cli_trace": ["--trace"], "cli_ast": ["--ast-only"], "cli_railroad": ["--railroad"],
                "cli_derives": ["-d", "Debug", "-d", "Clone"]}[cell.route]
        argv = [cli_bin()] + flag + sa + [gpath]
    elif cell.route == "compile_dir":
        argv = [sim_bin("driver"), "compile", "--dir", gpath if cell.dest_setup == "dir_is_grammar_file" else os.path.join(d, "src")] + sa
    else:
        argv = [sim_bin("driver"), "compile", "--file", gpath, "--dest", dest] + sa
        if cell.route == "compile_exit":
            argv.append("--exit")
    if cell.fmt and cell.route.startswith("compile"):
        argv.append("--format")
    e = dict(env)
    if cell.rustfmt != "present":
        e["PATH"] = "/usr/bin:/bin"
    if after_success and cell.route.startswith("compile"):
        # history: a successful run on the valid base text first, then the edited text (whatever the first run left behind
        # must not hide a failure of the second)
        with open(gpath, "wb") as f:
            f.write(cell.settings["base"])
        c0 = run_child(argv, d, e, entropy=entropy)
        if c0.rc != 0 or b"\nErr" in c0.out[:200]:
            raise HarnessError("base grammar of an after-success cell did not compile: %r" % c0.out[:200])
        with open(gpath, "wb") as f:
            f.write(cell.grammar)
    c = run_child(argv, d, e, entropy=entropy, faults=faults, shim_log=shim_log, **({"timeout": cell.timeout} if cell.timeout else {}))
    slow = None
    if c.timed_out and not cell.timeout:
        # "slow" is not "hangs": before a silent child is called a hang it gets LONG_TIMEOUT_S once more (the first few of a
        # run only; a later one is left unjudged, never reported)
        with _LONG_LOCK:
            grant = _LONG_BUDGET[0] > 0
            if grant:
                _LONG_BUDGET[0] -= 1
        if not grant:
            return "unjudged", c, {"status": "timeout", "fired": [], "dest": None, "unjudged": True}
        t1 = time.time()
        c = run_child(argv, d, e, entropy=entropy, faults=faults, shim_log=shim_log, timeout=LONG_TIMEOUT_S)
        slow = round(time.time() - t1, 1)
    if cell.route.startswith("compile") and cell.kind in ("restriction", "syntax", "rationale", "io_read") and not c.crashed():
        # the same run once more in the same directory: whatever the first run left behind must not turn a failure into a success
        c2 = run_child(argv, d, e, entropy=entropy, faults=faults, shim_log=shim_log)
        first_failed = c.rc != 0 or b"\nErr" in c.out[:200]
        second_failed = c2.rc != 0 or b"\nErr" in c2.out[:200]
        if first_failed and not second_failed:
            c = c2
    fired = [l for l in c.shim_log if "->" in l and not l.startswith("clock") and not l.startswith("time") and not l.startswith("gettimeofday")]
    info = {"status": c.status_word(), "fired": fired, "dest": None}
    if slow is not None:
        info["slow_s"] = slow
    if c.crashed():
        return "crash", c, info
    if cell.route == "lib":
        _, marker, rest = split_driver_output(c.out)
        if marker == "OK":
            info["code"] = rest
            return "ok", c, info
        if marker in ("ERR", "IOERR"):
            info["lib_error"] = rest[:200].decode(errors="replace")
            return "fail", c, info
        return "crash", c, info
    if cell.route.startswith("cli"):
        if c.rc == 0:
            info["code"] = c.out
            return "ok", c, info
        return "fail", c, info
    if cell.route == "compile_exit":
        if c.rc == 0:
            _, marker, _ = split_driver_output(c.out)
            if marker != "Returned":
                return "crash", c, info
            info["code"] = open(dest, "rb").read() if os.path.isfile(dest) else None
            return "ok", c, info
        return "fail", c, info
    _, marker, _ = split_driver_output(c.out)
    if c.rc != 0:
        return "crash", c, info
    if marker == "Ok":
        info["code"] = open(dest, "rb").read() if os.path.isfile(dest) else None
        return "ok", c, info
    if marker == "Err":
        return "fail", c, info
    return "crash", c, info


def embed(rng, host, bad):
    """Place the offending rules at a seeded rule boundary of a valid host grammar."""
    lines = host.decode().split("\n")
    cuts = [i for i, l in enumerate(lines) if l.strip() == "" and i > 0 and lines[i - 1].rstrip().endswith(";")]
    pos = rng.choice(cuts + [0, len(lines)]) if cuts else rng.choice([0, len(lines)])
    return ("\n".join(lines[:pos]) + "\n" + bad + "\n" + "\n".join(lines[pos:])).encode()


def damage(rng, text):
    s = text.decode()
    toks = []
    i = 0
    # crude tokens: identifiers, single punctuation, whitespace runs
    while i < len(s):
        j = i + 1
        if s[i].isalnum() or s[i] == "_":
            while j < len(s) and (s[j].isalnum() or s[j] == "_"):
                j += 1
        elif s[i].isspace():
            while j < len(s) and s[j].isspace():
                j += 1
        toks.append(s[i:j])
        i = j
    for _ in range(rng.range(1, 3)):
        k = rng.below(6)
        if not toks:
            break
        p = rng.below(len(toks))
        if k == 0:
            del toks[p]
        elif k == 1:
            toks.insert(p, rng.choice(toks))
        elif k == 2:
            toks = toks[:p]
        elif k == 3:
            toks.insert(p, rng.choice(["(", ")", "[", "]", "{", "}", "|", ";", "=", "@", ":", "*", "'", '"', ">", "!", "&", "$", "..", "@memoize", "@leftrec", "@char", "@string", "@export", "\\", "i'", "\u00e9"]))
        elif k == 4:
            toks[p] = rng.choice(toks)
        else:
            q = rng.below(len(toks))
            toks[p], toks[q] = toks[q], toks[p]
    return "".join(toks).encode()


def build_cells(seed, tier, pool):
    rng = Rng(derive(seed, "c15-cells"))
    cells = []
    hosts = [g for n, g in pool if n.startswith("corpus:") and n.endswith(":m0") and b"hooks" not in n.encode()]
    big = max((g for _, g in pool), key=len)
    # controls: valid grammar, no fault
    for r in ROUTES + CLI_PARSE_ONLY_ROUTES:
        cells.append(Cell("control_valid", r, "ok", "control", VALID))
        cells.append(Cell("control_valid_big", r, "ok", "control", big))
    for r in COMPILE_ROUTES:
        cells.append(Cell("control_valid_format", r, "ok", "control", VALID, fmt=True))
    # I/O faults on the grammar read
    for r in IO_ROUTES:
        if r != "compile_dir":
            # directory mode: no .ebnf file / a directory named *.ebnf is simply nothing to compile
            cells.append(Cell("grammar_missing", r, "fail", "io_read", setup="missing"))
            cells.append(Cell("grammar_is_directory", r, "fail", "io_read", setup="is_dir"))
        cells.append(Cell("grammar_dangling_symlink", r, "fail", "io_read", setup="dangling_symlink"))
        cells.append(Cell("grammar_symlink_loop", r, "fail", "io_read", setup="symlink_loop"))
        cells.append(Cell("grammar_invalid_utf8", r, "fail", "io_read", VALID[:30] + b"\xff\xfe" + VALID[30:]))
        cells.append(Cell("grammar_truncated_utf8", r, "fail", "io_read", VALID + b"# \xc3"))
        cells.append(Cell("grammar_open_EIO", r, "fail", "io_read", VALID, faults="open:{G}:1:e5"))
        cells.append(Cell("grammar_open_EACCES", r, "fail", "io_read", VALID, faults="open:{G}:1:e13"))
        cells.append(Cell("grammar_open_EMFILE", r, "fail", "io_read", VALID, faults="open:{G}:1:e24"))
        cells.append(Cell("grammar_read_EIO_first", r, "fail", "io_read", big, faults="read:{G}:1:e5"))
        cells.append(Cell("grammar_read_EIO_second", r, "fail", "io_read", big, faults="read:{G}:2:e5"))
        cells.append(Cell("grammar_read_EINTR_retried", r, "same_as_control", "io_transparent", big, faults="read:{G}:1:e4"))
        cells.append(Cell("grammar_short_reads", r, "same_as_control", "io_transparent", big, faults="read:{G}:0:short%d" % rng.range(1, 97)))
    # the product of the CLI is its standard output: when it cannot be written the status must not be 0
    for r in ["cli", "cli_trace", "cli_derives", "cli_ast", "cli_railroad"]:
        cells.append(Cell("stdout_ENOSPC", r, "status_nonzero", "io_write", VALID, faults="write:@stdout:1:e28"))
        cells.append(Cell("stdout_EIO_later", r, "status_nonzero", "io_write", big, faults="write:@stdout:0:short%d;write:@stdout:2:e5" % rng.range(50, 900)))
    # directory mode: failures below the top level must surface as well
    cells.append(Cell("nested_grammar_syntax_error", "compile_dir", "fail", "io_read", b"Zz1 = ('a' ;\n", setup="nested_invalid"))
    cells.append(Cell("nested_grammar_restriction", "compile_dir", "fail", "io_read", b"@export\n@string\nZz1 = 'a';\n", setup="nested_invalid"))
    cells.append(Cell("nested_grammar_invalid_utf8", "compile_dir", "fail", "io_read", b"Zz1 = 'a';\n# \xff\n", setup="nested_invalid"))
    cells.append(Cell("nested_grammar_dangling_symlink", "compile_dir", "fail", "io_read", setup="nested_dangling"))
    for fmt in (False, True):
        sfx = "+format" if fmt else ""
        for setup in ("sibling_bad_last", "sibling_bad_first", "nested_invalid"):
            if setup == "nested_invalid" and not fmt:
                continue
            cells.append(Cell("%s_syntax_error%s" % (setup, sfx), "compile_dir", "fail", "io_read", b"Zz1 = ('a' ;\n", setup=setup, fmt=fmt))
            cells.append(Cell("%s_restriction%s" % (setup, sfx), "compile_dir", "fail", "io_read", b"@export\n@string\nZz1 = 'a';\n", setup=setup, fmt=fmt))
            cells.append(Cell("%s_invalid_utf8%s" % (setup, sfx), "compile_dir", "fail", "io_read", b"Zz1 = 'a';\n# \xff\n", setup=setup, fmt=fmt))
    cells.append(Cell("nested_directory_unreadable", "compile_dir", "fail", "io_read", setup="nested_unreadable_dir", faults="open:/src/locked:0:e13"))
    cells.append(Cell("top_directory_unreadable", "compile_dir", "fail", "io_read", VALID, faults="open:/src:1:e13"))
    # several runs / Compile values in ONE process: a failure must surface whatever the process compiled before
    BROKEN = [("syntax_error", b"Zz1 = ('a' ;\n"), ("restriction", b"@export\n@string\nZz1 = 'a';\n"), ("include_of_missing_rule", b"Zz1 = 'a' >ZzNope;\n")]
    for bname, broken in BROKEN:
        G, OUT = "{D}/p/src/g.ebnf", "{D}/p/out.rs"
        scripts = {
            "same_relative_path_after_chdir": [["W", "{D}/a/src/g.ebnf", VALID], ["W", "{D}/b/src/g.ebnf", broken], ["CD", "{D}/a"], ["RUN", "r0", "--file", "src/g.ebnf", "--dest", "out.rs"],
                                               ["CD", "{D}/b"], ["RUN", "r1", "--file", "src/g.ebnf", "--dest", "out.rs"]],
            "grammar_broken_between_two_runs": [["W", G, VALID], ["RUN", "r0", "--file", G, "--dest", OUT], ["W", G, broken], ["RUN", "r1", "--file", G, "--dest", OUT]],
            "grammar_broken_and_destination_deleted_between_two_runs": [["W", G, VALID], ["RUN", "r0", "--file", G, "--dest", OUT], ["RM", OUT], ["W", G, broken], ["RUN", "r1", "--file", G, "--dest", OUT]],
            "directory_run_twice_grammar_broken_in_between": [["W", G, VALID], ["RUN", "r0", "--dir", "{D}/p/src"], ["W", G, broken], ["RUN", "r1", "--dir", "{D}/p/src"]],
            "file_mode_then_directory_mode_grammar_broken_in_between": [["W", G, VALID], ["RUN", "r0", "--file", G], ["W", G, broken], ["RUN", "r1", "--dir", "{D}/p/src"]],
            "other_grammar_compiled_first_then_broken_one": [["W", "{D}/p/src/ok.ebnf", VALID], ["W", G, broken], ["RUN", "r0", "--file", "{D}/p/src/ok.ebnf", "--dest", "{D}/p/ok.rs"], ["RUN", "r1", "--file", G, "--dest", OUT]],
        }
        for sname, script in scripts.items():
            cells.append(Cell("one_process_%s_%s" % (sname, bname), "compile_script", "fail", "io_read", broken, {"script": script}))
    cells.append(Cell("one_process_control_two_valid_runs", "compile_script", "ok", "control", VALID,
                      {"script": [["W", "{D}/p/src/g.ebnf", VALID], ["RUN", "r0", "--file", "{D}/p/src/g.ebnf", "--dest", "{D}/p/out.rs"], ["CD", "{D}/p"], ["RUN", "r1", "--file", "src/g.ebnf", "--dest", "out2.rs"]]}))
    # Compile::directory pointed at a grammar file instead of a directory (the walk then has exactly one entry)
    cells.append(Cell("directory_is_a_grammar_file_valid", "compile_dir", "ok", "control", VALID, dest_setup="dir_is_grammar_file"))
    cells.append(Cell("directory_is_a_grammar_file_syntax_error", "compile_dir", "fail", "io_read", b"Zz1 = ('a' ;\n", dest_setup="dir_is_grammar_file"))
    cells.append(Cell("directory_is_a_grammar_file_restriction", "compile_dir", "fail", "io_read", b"@export\n@string\nZz1 = 'a';\n", dest_setup="dir_is_grammar_file"))
    cells.append(Cell("directory_is_a_grammar_file_unreadable", "compile_dir", "fail", "io_read", VALID, dest_setup="dir_is_grammar_file", faults="open:{G}:1:e5"))
    # I/O faults on the destination
    for r in COMPILE_ROUTES:
        cells.append(Cell("dest_is_directory", r, "fail", "io_write", VALID, dest_setup="dest_is_dir"))
        if r != "compile_dir":
            cells.append(Cell("dest_parent_missing", r, "fail", "io_write", VALID, dest_setup="dest_parent_missing"))
        cells.append(Cell("dest_write_ENOSPC", r, "fail", "io_write", VALID, faults="write:{D}:1:e28"))
        cells.append(Cell("dest_write_EIO_later", r, "fail", "io_write", big, faults="write:{D}:0:short%d;write:{D}:3:e5" % rng.range(100, 4000)))
        cells.append(Cell("dest_open_EACCES", r, "fail", "io_write", VALID, faults="open:{D}:0:e13"))
        cells.append(Cell("dest_open_EROFS", r, "fail", "io_write", VALID, faults="open:{D}:0:e30"))
        cells.append(Cell("dest_short_writes", r, "same_as_control", "io_transparent", big, faults="write:{D}:0:short%d" % rng.range(1, 300)))
        cells.append(Cell("dest_write_EINTR_retried", r, "same_as_control", "io_transparent", big, faults="write:{D}:1:e4"))
        cells.append(Cell("rustfmt_absent", r, "nocrash", "subprocess", VALID, fmt=True, rustfmt="absent"))
    # documented restrictions and rationale classes: bare and embedded in a host grammar
    nhosts = 1 if tier == "quick" else len(hosts)
    for table, kind in ((RESTRICTIONS, "restriction"), (RATIONALE, "rationale")):
        for fid, text, settings in table:
            variants = [("", text.encode())]
            chosen = rng.sample(hosts, nhosts)
            for h in chosen:
                reps = 1 if tier == "quick" else 3
                for _ in range(reps):
                    variants.append(("+host", embed(rng, h, text)))
            if kind == "restriction" and "Whitespace" not in text:
                # position relative to other rules: checks done while walking the rules may depend on what came before
                ws = "@no_skip_ws\nWhitespace = {' ' | '\\n'};\n"
                variants.append(("+after_whitespace_rule", (ws + text).encode()))
                variants.append(("+before_whitespace_rule", (text + ws).encode()))
                exp = "@export\nZzTop = 'x' ZzNum;\n@string\n@no_skip_ws\nZzNum = {'0'..'9'}+;\n@char\nZzC = 'c';\n@extern(zz_e)\nZzE;\n"
                variants.append(("+after_other_rules", (exp + text).encode()))
            for suffix, g in variants:
                for r in ROUTES:
                    if r.startswith("cli") and settings.get("derives") == []:
                        continue  # the CLI cannot express an empty derive set
                    if r == "cli_derives" and settings.get("derives") is not None:
                        continue
                    # restrictions must be rejected; the rationale classes must be answered (code or error), not crash
                    cells.append(Cell(fid + suffix, r, "fail" if kind == "restriction" else "nocrash", kind, g, settings))
    for fid, text in SYNTAX:
        variants = [("", text.encode())]
        for h in rng.sample(hosts, nhosts):
            variants.append(("+host", embed(rng, h, text)))
        for suffix, g in variants:
            for r in ROUTES + CLI_PARSE_ONLY_ROUTES:
                cells.append(Cell(fid + suffix, r, "fail", "syntax", g))
    # small edits of a large valid grammar, compiled after a successful run on the unedited text (Compile routes)
    nedit = 40 if tier == "quick" else 600
    for i in range(nedit):
        b = bytearray(big)
        pos = rng.below(len(b))
        k = rng.below(4)
        if k == 0:
            del b[pos]
        elif k == 1:
            b[pos:pos] = rng.choice([b"(", b")", b"'", b";", b"=", b"|", b"@", b"\\", b"}", b"i'\xc3\xa9'", b"$$"])
        elif k == 2:
            b[pos] = rng.choice(b"();='\"|@{}[]x#")
        else:
            b += rng.choice([b"# c", b"X = ;;", b"'", b"\n@nope\nY = 'y';\n"])
        g = bytes(b)
        cells.append(Cell("edit%04d" % i, "lib", "consistent", "damage", g))
        for r in COMPILE_ROUTES:
            cells.append(Cell("edit%04d" % i, r, "consistent", "damage", g, {"base": big}, dest_setup="after_success"))
    # the same against a grammar full of lexically tricky lines (quotes in literals, '#' in literals, quotes in comments):
    # a damaging edit at the end of every such line must be noticed, also after a successful run on the unedited text
    mark = "\u00ab\u00bb"
    tricky = TRICKY_LEX.replace(mark, "").encode()
    nmarks = TRICKY_LEX.count(mark)
    for mi in range(nmarks):
        for ei, ins in enumerate([" ;; ", " i'\u00e9'"]):
            parts = TRICKY_LEX.split(mark)
            g = ("".join(p + (ins if k == mi else "") for k, p in enumerate(parts[:-1])) + parts[-1]).encode()
            fid = "tricky_rule%02d_edit%d" % (mi, ei)
            cells.append(Cell(fid, "lib", "fail", "syntax" if ei == 0 else "restriction", g))
            for r in COMPILE_ROUTES:
                cells.append(Cell(fid, r, "fail", "damage", g, {"base": tricky}, dest_setup="after_success"))
    for r in ROUTES:
        cells.append(Cell("control_tricky_lex", r, "ok", "control", tricky))
    # depth: nested choice groups (work of the generator per level) and nested parentheses (recursion of the grammar parser)
    def nested_groups(depth):
        e = "'x'"
        for _ in range(depth):
            e = "( %s | 'a' )" % e
        return ("Zz1 = %s;\n" % e).encode()

    def nested_parens(depth):
        return ("Zz1 = %s'x'%s;\n" % ("(" * depth, ")" * depth)).encode()

    char_boundaries = [
        ("char_rule_xml_char_class", "@char\nZz1 = '\\t' | '\\n' | '\\r' | ' '..'\\uD7FF' | '\\uE000'..'\\uFFFD' | '\\U00010000'..'\\U0010FFFF';\n"),
        ("char_rule_ends_before_surrogates", "@char\nZz1 = 'a'..'\\u{D7FF}' | '\\u{E000}';\n"),
        ("char_rule_max_code_point", "@char\nZz1 = '\\u{10FFFF}' | '\\u{10FFFE}'..'\\u{10FFFF}' | '\\x00';\n"),
        ("char_rule_adjacent_and_overlapping", "@char\nZz1 = 'a'..'f' | 'g'..'k' | 'c'..'h' | 'k' | 'l' | 'a';\n"),
        ("char_rule_unsorted_parts", "@char\nZz1 = 'z' | 'a' | '\\u{E000}' | '\\u{D7FF}' | 'm'..'n';\n"),
        ("char_rule_reversed_range", "@char\nZz1 = 'z'..'a' | 'q';\n"),
        ("char_rule_refers_to_char_rule", "@char\nZz1 = Zz2 | '\\u{D7FF}' | 'x';\n@char\nZz2 = '\\u{E000}'..'\\u{E001}';\n"),
        ("range_ends_before_surrogates", "Zz1 = 'a'..'\\u{D7FF}' '\\u{E000}'..'\\u{10FFFF}';\n"),
        ("literal_boundary_code_points", "Zz1 = '\\u{D7FF}\\u{E000}\\u{10FFFF}\\x00\\x7f\\x80\\xff';\n"),
        ("empty_constructs", "Zz1 = () [] {} ( | ) 'a' | | 'b';\n"),
        ("rule_with_only_lookaheads", "Zz1 = !'a' &'b' !$;\n"),
        ("empty_rule_and_empty_grammar_tail", "Zz1 = ;\nZz2 = Zz1 Zz1;\n\n\n"),
    ]
    for fid, text in char_boundaries:
        for r in ROUTES + CLI_PARSE_ONLY_ROUTES:
            cells.append(Cell(fid, r, "ok", "control", text.encode()))
    for r in ROUTES + CLI_PARSE_ONLY_ROUTES:
        cells.append(Cell("nested_choice_groups_10", r, "ok", "control", nested_groups(10)))
        cells.append(Cell("nested_parentheses_100", r, "ok", "control", nested_parens(100)))
        # realistic depths far below the generator's own limit (known finding at ~1000): must be answered with code on every route
        if r != "cli_ast":  # --ast-only pretty-prints the tree: quadratic in the depth, minutes at this size (section 11.3)
            cells.append(Cell("nested_parentheses_250", r, "ok", "control", nested_parens(250)))
            cells.append(Cell("nested_parentheses_400", r, "ok", "control", nested_parens(400)))
        cells.append(Cell("choice_of_600_alternatives", r, "ok", "control", ("Zz1 = " + " | ".join("'k%d'" % i for i in range(600)) + ";\n").encode()))
        if r in ("lib", "cli", "compile_file", "compile_dir"):
            # very wide, as generated grammars are (keyword lists): whoever walks the alternatives recursively runs out of stack
            cells.append(Cell("choice_of_20000_alternatives", r, "ok", "control", ("Zz1 = " + " | ".join("'k%d'" % i for i in range(20000)) + ";\n").encode()))
        cells.append(Cell("sequence_of_600_parts", r, "ok", "control", ("Zz1 = " + " ".join("'k%d'" % i for i in range(600)) + ";\n").encode()))
        cells.append(Cell("nested_choice_groups_30", r, "nocrash", "rationale", nested_groups(30), timeout=8))
        cells.append(Cell("nested_parentheses_2000", r, "nocrash", "rationale", nested_parens(2000)))
    # syntax damage: any answer but a crash; all routes must agree on accept/reject
    ndam = 40 if tier == "quick" else 1500
    srcs = [g for n, g in pool]
    for i in range(ndam):
        g = damage(rng, rng.choice(srcs))
        for r in ROUTES:
            cells.append(Cell("damage%04d" % i, r, "consistent", "damage", g))
        for r in CLI_PARSE_ONLY_ROUTES:
            cells.append(Cell("damage%04d" % i, r, "nocrash", "damage", g))
    return cells


def judge(cell, verdict, info, controls, groups):
    """None if the cell behaves as the property demands, else a description."""
    if cell.expect == "status_nonzero":
        # any non-zero status makes the failure visible (a panic on a failed println! included), a hang or status 0 does not
        if info["status"] == "exit0" or info["status"] == "timeout":
            return "the failure is not visible to the caller: %s" % info["status"]
        return None
    if verdict == "crash":
        return "child %s (panic, abort, signal or hang) instead of an answer" % info["status"]
    if cell.expect == "fail":
        if verdict != "fail":
            return "the failure is not visible to the caller: route answered success (%s)" % info["status"]
    elif cell.expect == "ok":
        if verdict != "ok":
            return "valid grammar without fault was not compiled (%s)" % info["status"]
    elif cell.expect == "same_as_control":
        ctl = controls.get((cell.route, cell.grammar))
        if verdict != "ok":
            return "a transparently retried I/O condition made the route fail (%s)" % info["status"]
        if ctl is not None and info.get("code") != ctl:
            return "output under a retried/short I/O condition differs from the fault-free output"
    elif cell.expect == "consistent":
        lib = groups.get(cell.fault, {}).get("lib")
        if lib is not None and cell.route != "lib" and verdict != lib:
            return "routes disagree: library route says %s, this route says %s" % (lib, verdict)
    return None


LONG_TIMEOUT_S = 300
_LONG_BUDGET = [8]
_LONG_LOCK = threading.Lock()


def run_cells(cells, seed, d, labels=None):
    results = [None] * len(cells)

    def one(i):
        cell = cells[i]
        rng = Rng(derive(seed, "c15-env", labels[i] if labels else i))
        cd = os.path.join(d, "c%05d" % i)
        os.makedirs(cd)
        try:
            v, c, info = execute(cell, cd, env_for(rng), rng.below(1 << 62))
            info["stderr_tail"] = c.err[-300:].decode(errors="replace")
            info["stdout_head"] = c.out[:200].decode(errors="replace")
            return v, info
        finally:
            shutil.rmtree(cd, ignore_errors=True)

    with ThreadPoolExecutor(NCPU) as ex:
        for i, r in enumerate(ex.map(one, range(len(cells)))):
            results[i] = r
    return results


def run(tier, seed, replay_path=None):
    t0 = time.time()
    if replay_path:
        return replay(replay_path, seed)
    pool = procsim.grammar_pool()
    cells = build_cells(seed, tier, pool)
    d = run_dir("c15")
    try:
        results = run_cells(cells, seed, d)
        # determinism self-test: a spread of cells once more; verdict, status and fired faults must be identical
        step = max(1, len(cells) // (60 if tier == "quick" else 300))
        idx = list(range(0, len(cells), step))
        d2 = os.path.join(d, "again")
        os.makedirs(d2)
        again = run_cells([cells[i] for i in idx], seed, d2, idx)
        def sig(r):  # injected faults without the run directory in their path
            return (r[0], r[1]["status"], [l.split(" ")[0] + " ->" + l.split("->")[-1] for l in r[1]["fired"]])
        sdiffs = [cells[i].key() for i, r in zip(idx, again) if sig(r) != sig(results[i])]
        if sdiffs:
            raise HarnessError("determinism self-test: cells differed between two executions: %r" % sdiffs[:5])
        nself = len(idx)
    finally:
        cleanup_run_dir(d)
    controls = {}
    groups = {}
    for cell, (v, info) in zip(cells, results):
        if cell.expect == "ok" and v == "ok":
            controls[(cell.route, cell.grammar)] = info.get("code")
        if cell.kind == "damage":
            groups.setdefault(cell.fault, {})[cell.route] = v
    # controls for "same_as_control" cells use the big grammar: make sure they exist
    known = {(f["fault"], f["route"]): f for f in load_known_findings().get("findings", []) if f.get("property") == "C15"}
    known_hit = {}
    viol = []
    vacuous = []
    fired_kinds = {}
    fired_cells = set()
    by_kind = {}
    samples = []
    slow_cells = []
    unjudged = 0
    for cell, (v, info) in zip(cells, results):
        by_kind[cell.kind] = by_kind.get(cell.kind, 0) + 1
        if info.get("slow_s") is not None:
            slow_cells.append({"fault": cell.fault, "route": cell.route, "answered_after_s": info["slow_s"], "status": info["status"]})
        if v == "unjudged":
            unjudged += 1
            continue
        shim_fault = bool(cell.faults)
        if shim_fault:
            if info["fired"]:
                fired_cells.add(cell.key())
                for l in info["fired"]:
                    k = l.split(" ")[0] + ":" + l.split("->")[1].strip().split(" ")[0]
                    fired_kinds[k] = fired_kinds.get(k, 0) + 1
        elif cell.kind != "control":
            fired_cells.add(cell.key())
            fired_kinds[cell.kind] = fired_kinds.get(cell.kind, 0) + 1
        problem = judge(cell, v, info, controls, groups)
        if cell.route == "lib" and v == "fail" and cell.kind in ("restriction", "syntax"):
            # a restriction cell must get past the grammar parser, a syntax cell must not: otherwise the cell tests nothing
            stage = "codegen error" if cell.kind == "restriction" else "parse error"
            if not info.get("lib_error", "").startswith(stage):
                raise HarnessError("cell %s is vacuous: expected a %s, library said: %s" % (cell.fault, stage, info.get("lib_error")))
        if shim_fault and not info["fired"] and cell.expect in ("fail",):
            # decided after the loop: when other cells report violations the run is a violation report, not a harness error
            vacuous.append("fault of cell %s/%s never fired (shim log empty): %r" % (cell.fault, cell.route, info))
            problem = None  # no failure was injected, so there is none to surface
        if problem:
            base = cell.fault.replace("+host", "")
            if (base, cell.route) in known:
                known_hit.setdefault((base, cell.route), problem)
            else:
                viol.append((cell, v, info, problem))
        if len(samples) < 6 and cell.kind in ("io_read", "io_write", "restriction", "rationale", "syntax", "damage") and (len(samples) == 0 or samples[-1]["kind"] != cell.kind):
            samples.append({"fault": cell.fault, "route": cell.route, "kind": cell.kind, "expect": cell.expect, "shim_faults": cell.faults,
                            "grammar": (cell.grammar or b"").decode("utf-8", "backslashreplace")[:200], "verdict": v, "status": info["status"], "fired": info["fired"][:3]})
    if vacuous and not viol:
        raise HarnessError(vacuous[0])
    for (f, r), problem in sorted(known_hit.items()):
        log("KNOWN-FINDING: property=C15 fault=%s route=%s: %s" % (f, r, problem))
    nviol = 0
    seen = set()
    for cell, v, info, problem in viol:
        k = (cell.fault.replace("+host", ""), cell.route)
        if k in seen:
            continue
        seen.add(k)
        nviol += 1
        if nviol > 12:
            log("  (further violating cell, no replay file written) %s / %s: %s" % (cell.fault, cell.route, problem))
            continue
        path = write_replay("C15", "%d-%s-%s-%s" % (seed, cell.fault.replace("+", "_"), cell.route, short_hash(cell.to_json())), {
            "property": "C15", "seed": seed, "cell": cell.to_json(), "verdict": v, "problem": problem,
            "status": info["status"], "stderr_tail": info.get("stderr_tail"), "stdout_head": info.get("stdout_head"),
            "note": "replay: ./check C15 --replay <this file> re-runs the cell in a fresh child"})
        log("VIOLATION property=C15 replay=%s" % path)
        log("  %s / %s: %s" % (cell.fault, cell.route, problem))
    wall = time.time() - t0
    coverage = {
        "evaluations": len(cells),
        "distinct_nontrivial": len(fired_cells),
        "exhaustive": True,
        "rule": ("one evaluation = one (fault class, route) cell run in a fresh child process under the LD_PRELOAD shim; the catalogue (I/O faults on the grammar read and the "
                 "destination write, every documented restriction, the rationale's panic/recursion classes, bare and embedded in a host grammar, plus seeded syntax damage) is "
                 "enumerated completely on every run. distinct_nontrivial = distinct (fault, route) cells whose fault really fired: for shim faults the shim log shows the injected "
                 "errno/short transfer, for content faults the offending text was given to the route; control cells are not counted"),
        "samples": samples,
        "cells_by_kind": by_kind,
        # children that were silent for the ordinary 20 s and answered when given LONG_TIMEOUT_S (slow, not a hang), and
        # timeouts beyond the budget of long re-runs that were left unjudged
        "slow_cells": slow_cells, "unjudged_timeouts": unjudged, "long_timeout_s": LONG_TIMEOUT_S,
        "faults_fired": fired_kinds,
        "routes": ROUTES,
        "runs_per_hour": int(len(cells) / max(wall, 1e-6) * 3600),
        "known_findings_hit": ["%s/%s" % k for k in sorted(known_hit)],
        "determinism_selftest": {"cells_run_twice": nself, "differences": 0},
        "not_decided": "totality over all grammar strings (no panic/hang for every text) is input-space search and is not decided here; only the listed classes and the seeded damages are run",
        "real_components": ["peginator_codegen (library route, Compile) linked from the working tree", "peginator-cli binary built from /repo/cli", "rustfmt", "kernel file system"],
        "stubbed_components": ["I/O errors, short transfers and EINTR are injected at the libc symbol boundary (open/read/write) by the shim", "entropy of the child is seeded"],
    }
    write_evidence("C15", tier, seed, "fault_enumeration", coverage, wall, nviol, [
        "only the process status / Ok-Err marker is judged, not the wording or stream of the message",
        "std::fs and std::process go through the interposable libc symbols on this toolchain (checked: every planned shim fault must appear in the shim log, else harness error)",
    ])
    if nviol:
        return 1
    log("C15 %s: %d cells, %d distinct fired (fault, route) cells, %d known findings, 0 violations (%.1fs)" % (tier, len(cells), len(fired_cells), len(known_hit), wall))
    return 0


def replay(path, seed):
    r = json.load(open(path))
    cell = Cell.from_json(r["cell"])
    d = run_dir("c15-replay")
    try:
        rng = Rng(derive(seed, "c15-replay"))
        controls, groups = {}, {}
        if cell.expect == "same_as_control":
            ctl = Cell("control", cell.route, "ok", "control", cell.grammar, cell.settings)
            cd = os.path.join(d, "ctl")
            os.makedirs(cd)
            v, c, info = execute(ctl, cd, base_env(), 1)
            controls[(cell.route, cell.grammar)] = info.get("code")
        if cell.expect == "consistent":
            lc = Cell(cell.fault, "lib", "consistent", "damage", cell.grammar, cell.settings)
            cd = os.path.join(d, "lib")
            os.makedirs(cd)
            v, c, info = execute(lc, cd, base_env(), 1)
            groups[cell.fault] = {"lib": v}
        cd = os.path.join(d, "cell")
        os.makedirs(cd)
        v, c, info = execute(cell, cd, base_env(), 1)
        problem = judge(cell, v, info, controls, groups)
        log("cell %s/%s: verdict=%s status=%s" % (cell.fault, cell.route, v, info["status"]))
        if c.err:
            log("stderr: " + c.err[-400:].decode(errors="replace"))
        if problem:
            log("problem: " + problem)
            log("VIOLATION property=C15 replay=%s" % path)
            return 1
        log("replay: the cell now behaves as the property demands")
        return 0
    finally:
        cleanup_run_dir(d)
