"""Shared pieces of the orchestrators: paths, the one PRNG, builds, child processes
under the simulated libc boundary, evidence and replay files, known findings."""
import hashlib
import json
import os
import shutil
import subprocess
import sys
import time

VERIF = os.path.dirname(os.path.dirname(os.path.abspath(__file__)))
REPO = os.environ.get("VERIF_REPO", "/repo")
TARGET = os.path.join(VERIF, "target")
SIM_DIR = os.path.join(VERIF, "sim")
SIM_TARGET = os.path.join(TARGET, "sim")
CLI_TARGET = os.path.join(TARGET, "cli")
SHIM_SO = os.path.join(TARGET, "shim", "shim.so")
LAUNCH = os.path.join(TARGET, "shim", "launch")
RUN_DIR = os.path.join(TARGET, "run")
EVIDENCE_DIR = os.path.join(VERIF, "evidence")
REPLAY_DIR = os.path.join(VERIF, "replays")
DEFAULT_SEED = 20260926
NCPU = min(16, os.cpu_count() or 4)

MASK = (1 << 64) - 1


class HarnessError(Exception):
    """Something in the machinery (not in the code under test) went wrong: exit 2."""


def splitmix64(x):
    x = (x + 0x9E3779B97F4A7C15) & MASK
    z = x
    z = ((z ^ (z >> 30)) * 0xBF58476D1CE4E5B9) & MASK
    z = ((z ^ (z >> 27)) * 0x94D049BB133111EB) & MASK
    return x, z ^ (z >> 31)


class Rng:
    """splitmix64; the only source of randomness in the orchestrators."""

    def __init__(self, seed):
        self.s = seed & MASK

    def next(self):
        self.s, v = splitmix64(self.s)
        return v

    def below(self, n):
        return self.next() % n if n > 0 else 0

    def range(self, lo, hi):
        """inclusive"""
        return lo + self.below(hi - lo + 1)

    def coin(self, permille):
        return self.below(1000) < permille

    def choice(self, seq):
        return seq[self.below(len(seq))]

    def weighted(self, pairs):
        total = sum(w for _, w in pairs)
        x = self.below(total)
        for v, w in pairs:
            if x < w:
                return v
            x -= w
        return pairs[-1][0]

    def shuffle(self, lst):
        for i in range(len(lst) - 1, 0, -1):
            j = self.below(i + 1)
            lst[i], lst[j] = lst[j], lst[i]

    def sample(self, seq, k):
        lst = list(seq)
        self.shuffle(lst)
        return lst[:k]


def derive(seed, *labels):
    """A sub-seed that depends on the seed and on the labels only (stable across runs/processes)."""
    h = hashlib.sha256(("%d|" % seed + "|".join(str(l) for l in labels)).encode()).digest()
    return int.from_bytes(h[:8], "little")


def get_seed():
    v = os.environ.get("VERIF_SEED", "")
    try:
        return int(v) & MASK if v.strip() else DEFAULT_SEED
    except ValueError:
        return DEFAULT_SEED


def log(msg):
    print(msg, flush=True)


def sh(cmd, cwd=None, env=None, timeout=None, check=False, stdin=None):
    e = dict(os.environ)
    if env:
        e.update(env)
    p = subprocess.run(cmd, cwd=cwd, env=e, capture_output=True, timeout=timeout, input=stdin)
    if check and p.returncode != 0:
        raise HarnessError("command failed (%d): %s\n%s\n%s" % (p.returncode, " ".join(cmd), p.stdout.decode(errors="replace")[-3000:], p.stderr.decode(errors="replace")[-6000:]))
    return p


def cargo_env():
    return {"CARGO_NET_OFFLINE": "true", "CARGO_TERM_COLOR": "never"}


def build_shim():
    os.makedirs(os.path.dirname(SHIM_SO), exist_ok=True)
    src = os.path.join(VERIF, "shim", "shim.c")
    lsrc = os.path.join(VERIF, "shim", "launch.c")
    if not os.path.exists(SHIM_SO) or os.path.getmtime(SHIM_SO) < os.path.getmtime(src):
        sh(["clang", "-O1", "-fPIC", "-shared", "-o", SHIM_SO + ".tmp", src, "-ldl", "-lpthread"], check=True)
        os.replace(SHIM_SO + ".tmp", SHIM_SO)
    if not os.path.exists(LAUNCH) or os.path.getmtime(LAUNCH) < os.path.getmtime(lsrc):
        sh(["clang", "-O1", "-o", LAUNCH + ".tmp", lsrc], check=True)
        os.replace(LAUNCH + ".tmp", LAUNCH)


def build_sim(packages=("simtools",)):
    """Rebuild the harness binaries (and with them the generated corpus parsers and the
    linked peginator/peginator_codegen) from /repo's current working tree."""
    t0 = time.time()
    cmd = ["cargo", "build", "--offline", "--quiet"]
    for p in packages:
        cmd += ["-p", p]
    p = sh(cmd, cwd=SIM_DIR, env=cargo_env())
    if p.returncode != 0:
        raise HarnessError("building %s from the working tree failed:\n%s" % (packages, p.stderr.decode(errors="replace")[-8000:]))
    return time.time() - t0


def build_cli(release=False):
    """The real peginator-cli binary, built from /repo/cli into a target dir of ours (release=True: the optimised build,
    as `cargo install` makes it: a second build of the same generator source)."""
    t0 = time.time()
    p = sh(["cargo", "build", "--offline", "--quiet", "--manifest-path", os.path.join(REPO, "cli", "Cargo.toml"),
            "--target-dir", CLI_TARGET] + (["--release"] if release else []), env=cargo_env())
    if p.returncode != 0:
        raise HarnessError("building peginator-cli from the working tree failed:\n%s" % p.stderr.decode(errors="replace")[-8000:])
    return time.time() - t0


def sim_bin(name):
    return os.path.join(SIM_TARGET, "debug", name)


def cli_bin(release=False):
    return os.path.join(CLI_TARGET, "release" if release else "debug", "peginator-cli")


def shim_env(entropy=None, clock=None, faults=None, heap_pad=None, shim_log=None):
    e = {"LD_PRELOAD": SHIM_SO}
    if entropy is not None:
        e["VERIF_ENTROPY"] = str(entropy)
    if clock is not None:
        e["VERIF_CLOCK"] = clock
    if faults:
        e["VERIF_FAULTS"] = faults
    if heap_pad is not None:
        e["VERIF_HEAP_PAD"] = str(heap_pad)
    if shim_log:
        e["VERIF_SHIM_LOG"] = shim_log
    return e


def run_dir(tag):
    d = os.path.join(RUN_DIR, "%s-%d" % (tag, os.getpid()))
    shutil.rmtree(d, ignore_errors=True)
    os.makedirs(d)
    return d


def cleanup_run_dir(d):
    shutil.rmtree(d, ignore_errors=True)


def load_known_findings():
    p = os.path.join(VERIF, "known_findings.json")
    if not os.path.exists(p):
        return {"findings": [], "fixed": []}
    return json.load(open(p))


def write_replay(prop, name, obj):
    d = os.path.join(REPLAY_DIR, prop)
    os.makedirs(d, exist_ok=True)
    path = os.path.join(d, name + ".json")
    with open(path, "w") as f:
        json.dump(obj, f, indent=1, ensure_ascii=False)
        f.write("\n")
    return path


def write_evidence(prop, tier, seed, level, coverage, wall_s, violations, assumptions, extra=None):
    os.makedirs(EVIDENCE_DIR, exist_ok=True)
    ev = {
        "property_id": prop,
        "tier": tier,
        "seed": seed,
        "level": level,
        "coverage": coverage,
        "assumptions": assumptions,
        "wall_s": round(wall_s, 2),
        "violations": violations,
    }
    if extra:
        ev.update(extra)
    path = os.path.join(EVIDENCE_DIR, prop + ".json")
    tmp = path + ".tmp"
    with open(tmp, "w") as f:
        json.dump(ev, f, indent=1, ensure_ascii=False)
        f.write("\n")
    os.replace(tmp, path)
    try:
        import jsonschema
        jsonschema.validate(ev, json.load(open("/root/.vp/EVIDENCE.schema.json")))
    except ImportError:
        pass
    except FileNotFoundError:
        pass
    return path


def short_hash(obj):
    return hashlib.sha256(json.dumps(obj, sort_keys=True, ensure_ascii=False).encode()).hexdigest()[:12]


_ENV_READS = None


def discovered_env_reads():
    """Run-time environment reads of the working tree: [(NAME, [string literals seen within the next 4 lines])].
    The environment is a seam of the process boundary; which variables matter is taken from the code under test, not
    guessed (compile-time `env!` is not a run-time read and is skipped; doc comments too)."""
    global _ENV_READS
    if _ENV_READS is not None:
        return _ENV_READS
    import re
    found = {}
    rx = re.compile(r'(?<![A-Za-z_!])(?:var|var_os)\s*\(\s*"([A-Za-z_][A-Za-z0-9_]*)"')
    for sub in ("runtime/src", "codegen/src", "cli/src", "macro/src"):
        for root, dirs, files in os.walk(os.path.join(REPO, sub)):
            dirs.sort()
            for fn in sorted(files):
                if not fn.endswith(".rs"):
                    continue
                try:
                    lines = open(os.path.join(root, fn), errors="replace").read().splitlines()
                except OSError:
                    continue
                for i, l in enumerate(lines):
                    if l.lstrip().startswith("//"):
                        continue
                    for m in rx.finditer(l):
                        lits = re.findall(r'"([^"\\]{0,24})"', " ".join(lines[i:i + 5]))
                        found.setdefault(m.group(1), set()).update(x for x in lits if x != m.group(1))
    _ENV_READS = sorted((k, sorted(v)) for k, v in found.items())
    return _ENV_READS


def discovered_env_value(rng, lits):
    return rng.choice(list(lits) + ["1", "0", "true", "false", "", "yes", "3"])
