//! parse-sim worker.  One simulation (or one isolated oracle job) per process.
//!
//!   sim-worker list                      variants of the corpus as JSON
//!   sim-worker oracle   < job.json       the job as the only parse of this process (NoopTracer)
//!   sim-worker run      < plan.json      one simulation under the baton scheduler
//!   sim-worker batch <run|oracle> <in.jsonl> <out.jsonl> <timeout_s>
//!                                        one fresh child process per input line
use std::{
    io::{BufRead, BufReader, Read, Write},
    panic::{catch_unwind, AssertUnwindSafe},
    process::{Command, Stdio},
    sync::Arc,
};

use serde_json::{json, Value};
use simcorpus::{
    dispatch,
    simrt::{self, Event, Policy, Sim, SimConfig, EV_JOB_END, EV_JOB_START, NO_OFF},
    Ctx, Entry, VARIANTS,
};

/// every thread that runs a parser gets the same generous stack (deeply nested corpus inputs)
const STACK_BYTES: usize = 256 << 20;

#[derive(Debug, Clone)]
struct Job {
    variant: String,
    rule: String,
    input: String,
    entry: Entry,
    ctx: Ctx,
    /// the input is handed to the parser at this offset (0..7) inside its buffer: different alignment of the same text
    align: usize,
    /// selector of the ParseSettings knobs found in the working tree (0 = defaults; part of the entry name: "sim@<sel>")
    settings: u64,
    /// the job is run this many times in a row (only the last result is kept): cheap way to age a thread by 2^16 parses
    repeat: usize,
}

fn parse_job(v: &Value) -> Job {
    let ctx = v.get("ctx").and_then(|c| c.as_array()).cloned().unwrap_or_default();
    let g = |i: usize| ctx.get(i).and_then(|x| x.as_u64()).unwrap_or(0) as u32;
    // volume probe: the text is followed by filler up to `pad_to` bytes (the plan stays small, the input does not)
    let mut input = v["input"].as_str().expect("job.input").to_string();
    let pad_to = v.get("pad_to").and_then(|a| a.as_u64()).unwrap_or(0) as usize;
    if pad_to > input.len() {
        let n = pad_to - input.len();
        input.reserve_exact(n + 8);
        input.extend(std::iter::repeat('#').take(n));
    }
    Job {
        variant: v["variant"].as_str().expect("job.variant").to_string(),
        rule: v["rule"].as_str().expect("job.rule").to_string(),
        input,
        entry: Entry::from_name(v.get("entry").and_then(|e| e.as_str()).unwrap_or("noop").split('@').next().unwrap_or("noop")).expect("job.entry"),
        settings: v.get("entry").and_then(|e| e.as_str()).and_then(|e| e.split_once('@')).and_then(|(_, n)| n.parse().ok()).unwrap_or(0),
        ctx: Ctx { retval: g(0), a_count: g(1), calls: 0 },
        align: v.get("align").and_then(|a| a.as_u64()).unwrap_or(0) as usize % 8,
        repeat: v.get("repeat").and_then(|a| a.as_u64()).unwrap_or(1).max(1) as usize,
    }
}

struct JobResult {
    res: String,
    ctx: Ctx,
    nest: bool,
    panicked: bool,
}

thread_local! {
    /// one buffer per OS thread, reused for consecutive inputs when the plan says so (same address, different text)
    static ARENA: std::cell::RefCell<String> = const { std::cell::RefCell::new(String::new()) };
}

fn run_job_guarded(job: &Job, entry: Entry) -> JobResult {
    run_job_in_buffer(job, entry, false)
}

fn run_job_in_buffer(job: &Job, entry: Entry, reuse: bool) -> JobResult {
    simcorpus::set_settings_selector(job.settings);
    let mut fresh = String::new();
    let r = if reuse {
        ARENA.with(|a| {
            let mut a = a.borrow_mut();
            a.clear();
            a.push_str(&" ".repeat(job.align));
            a.push_str(&job.input);
            catch_unwind(AssertUnwindSafe(|| dispatch(&job.variant, &job.rule, &a[job.align..], entry, job.ctx)))
        })
    } else {
        fresh.push_str(&" ".repeat(job.align));
        fresh.push_str(&job.input);
        catch_unwind(AssertUnwindSafe(|| dispatch(&job.variant, &job.rule, &fresh[job.align..], entry, job.ctx)))
    };
    match r {
        Ok(Some((res, ctx))) => JobResult { res, ctx, nest: simrt::nesting_error(), panicked: false },
        Ok(None) => {
            eprintln!("unknown (variant, rule): ({}, {})", job.variant, job.rule);
            std::process::exit(2);
        }
        Err(p) => {
            let msg = p
                .downcast_ref::<&str>()
                .map(|s| s.to_string())
                .or_else(|| p.downcast_ref::<String>().cloned())
                .unwrap_or_else(|| "?".into());
            JobResult { res: format!("PANIC: {msg}"), ctx: job.ctx, nest: false, panicked: true }
        }
    }
}

fn ctx_json(c: &Ctx) -> Value {
    json!([c.retval, c.a_count, c.calls])
}

fn read_stdin() -> String {
    let mut s = String::new();
    std::io::stdin().read_to_string(&mut s).expect("stdin");
    s
}

fn cmd_list() {
    let v: Vec<Value> = VARIANTS
        .iter()
        .map(|v| {
            json!({"name": v.name, "grammar": v.grammar, "mask": v.mask, "nmemo": v.nmemo,
                   "memoized": v.memoized, "exported": v.exported, "ctx": v.ctx, "hooks": v.hooks})
        })
        .collect();
    println!("{}", Value::Array(v));
}

fn cmd_oracle() {
    let v: Value = serde_json::from_str(&read_stdin()).expect("job json");
    let job = parse_job(&v);
    // the isolated run happens on a thread called "main" (as in a plain program), simulations on threads called task<n>
    let r = std::thread::Builder::new()
        .name("main".into())
        .stack_size(STACK_BYTES)
        .spawn(move || {
            simrt::set_job(0, job.input.len() as u32);
            run_job_guarded(&job, job.entry)
        })
        .expect("spawn oracle thread")
        .join()
        .expect("oracle thread");
    println!("{}", json!({"res": r.res, "ctx": ctx_json(&r.ctx), "panic": r.panicked}));
}

fn kind_from_name(s: &str) -> u8 {
    (0u8..7).find(|k| simrt::kind_name(*k) == s).unwrap_or(255)
}

fn parse_policy(p: &Value) -> Policy {
    let u64s = |v: &Value| -> Vec<u64> {
        v.as_array().map(|a| a.iter().filter_map(|x| x.as_u64()).collect()).unwrap_or_default()
    };
    let sp = p.get("switch_permille").and_then(|x| x.as_u64()).unwrap_or(300) as u32;
    match p["kind"].as_str().unwrap_or("random") {
        "pct" => Policy::Pct { change_points: u64s(&p["change_points"]) },
        "rtc" => Policy::Rtc { preempt_steps: u64s(&p["preempt_steps"]) },
        "stall" => Policy::Stall {
            victim: p["victim"].as_u64().unwrap_or(0) as usize,
            from: p["from"].as_u64().unwrap_or(0),
            until: p["until"].as_u64().unwrap_or(0),
            switch_permille: sp,
        },
        "targeted" => Policy::Targeted {
            targets: p["targets"]
                .as_array()
                .map(|a| {
                    a.iter()
                        .map(|t| (kind_from_name(t[0].as_str().unwrap_or("")), t[1].as_str().unwrap_or("").to_string()))
                        .collect()
                })
                .unwrap_or_default(),
            permille: p["permille"].as_u64().unwrap_or(800) as u32,
            switch_permille: sp,
        },
        _ => Policy::Random { switch_permille: sp },
    }
}

fn run_one(sim: &Arc<Sim>, task: usize, j: usize, job: &Job, fresh: bool, reuse: bool) -> JobResult {
    let body = |bind: bool| -> JobResult {
        if bind {
            simrt::bind_thread(sim, task);
        }
        simrt::set_job(j as u16, job.input.len() as u32);
        simrt::emit(EV_JOB_START, &job.variant, NO_OFF);
        for _ in 1..job.repeat {
            let _ = run_job_in_buffer(job, job.entry, reuse);
        }
        let r = run_job_in_buffer(job, job.entry, reuse);
        simrt::emit(EV_JOB_END, &job.variant, NO_OFF);
        r
    };
    if fresh {
        // a new OS thread per job (fresh TLS); the task's baton stays with the task
        std::thread::scope(|s| {
            std::thread::Builder::new()
                .stack_size(STACK_BYTES)
                .spawn_scoped(s, || body(true))
                .expect("spawn job thread")
                .join()
                .expect("job thread")
        })
    } else {
        body(false)
    }
}

fn cmd_run() {
    let plan: Value = serde_json::from_str(&read_stdin()).expect("plan json");
    let tasks: Vec<Vec<Job>> = plan["tasks"]
        .as_array()
        .expect("plan.tasks")
        .iter()
        .map(|t| t.as_array().expect("task").iter().map(parse_job).collect())
        .collect();
    if let Some(env) = plan.get("env").and_then(|e| e.as_object()) {
        // process environment of this simulation (set before any thread exists)
        for (k, v) in env {
            if let Some(v) = v.as_str() {
                std::env::set_var(k, v);
            }
        }
    }
    let n = tasks.len();
    // true/false for all tasks, or one flag per task (thread churn next to a long-lived thread)
    let fresh_all = plan.get("fresh_threads").and_then(|x| x.as_bool()).unwrap_or(false);
    let fresh_per_task: Vec<bool> = plan.get("fresh_threads").and_then(|x| x.as_array()).map(|a| a.iter().map(|b| b.as_bool().unwrap_or(false)).collect()).unwrap_or_default();
    let keep_log = plan.get("keep_log").and_then(|x| x.as_bool()).unwrap_or(false);
    let reuse = plan.get("reuse_buffer").and_then(|x| x.as_bool()).unwrap_or(false);
    let mut start_at: Vec<u64> =
        plan.get("start_at").and_then(|a| a.as_array()).map(|a| a.iter().filter_map(|x| x.as_u64()).collect()).unwrap_or_default();
    start_at.resize(n, 0);
    let replay: Option<Vec<u16>> = plan
        .get("choices")
        .and_then(|c| c.as_array())
        .map(|a| a.iter().filter_map(|x| x.as_u64()).map(|x| x as u16).collect());
    let cfg = SimConfig {
        ntasks: n,
        seed: plan["sim_seed"].as_u64().unwrap_or(0),
        policy: parse_policy(&plan["policy"]),
        start_at,
        replay,
        keep_log,
    };
    let sim = Sim::new(cfg);
    let tasks = Arc::new(tasks);
    let mut handles = Vec::new();
    for t in 0..n {
        let sim = sim.clone();
        let tasks = tasks.clone();
        let fresh_per_task = fresh_per_task.clone();
        handles.push(
            std::thread::Builder::new()
                .name(format!("task{t}"))
                .stack_size(STACK_BYTES)
                .spawn(move || {
                    simrt::bind_thread(&sim, t);
                    sim.task_enter(t);
                    let mut out = Vec::new();
                    for (j, job) in tasks[t].iter().enumerate() {
                        let fresh = fresh_per_task.get(t).copied().unwrap_or(fresh_all);
                        out.push(run_one(&sim, t, j, job, fresh, reuse));
                    }
                    sim.task_exit(t);
                    simrt::unbind_thread();
                    out
                })
                .expect("spawn"),
        );
    }
    sim.start();
    let mut results = Vec::new();
    for (t, h) in handles.into_iter().enumerate() {
        for (j, r) in h.join().expect("task thread").into_iter().enumerate() {
            results.push(json!({"t": t, "j": j, "res": r.res, "ctx": ctx_json(&r.ctx), "nest": r.nest, "panic": r.panicked}));
        }
    }
    let rep = sim.report();
    // overlap measures from job spans
    let mut overlap_variant = 0u64;
    let mut overlap_input = 0u64;
    for a in &rep.job_spans {
        let ja = &tasks[a.0 as usize][a.1 as usize];
        let mut ov = false;
        let mut oi = false;
        for b in &rep.job_spans {
            if a.0 == b.0 {
                continue;
            }
            if a.2 <= b.3 && b.2 <= a.3 {
                let jb = &tasks[b.0 as usize][b.1 as usize];
                if ja.variant == jb.variant {
                    ov = true;
                    if ja.input == jb.input {
                        oi = true;
                    }
                }
            }
        }
        overlap_variant += ov as u64;
        overlap_input += oi as u64;
    }
    let mut sp = rep.switch_points.clone();
    sp.sort_unstable();
    sp.dedup();
    let mut out = json!({
        "ok": true,
        "results": results,
        "choices": rep.choices,
        "steps": rep.steps,
        "switches": rep.switches,
        "switches_inside_parse": rep.switches_inside_parse,
        "log_hash": format!("{:016x}", rep.log_hash),
        "switch_hash": format!("{:016x}", rep.switch_hash),
        "switch_points": sp,
        "cache_hits": rep.cache_hits,
        "leftrec_rounds": rep.leftrec_rounds,
        "hook_events": rep.hook_events,
        "rule_events": rep.rule_events,
        "overlap_same_variant": overlap_variant,
        "overlap_same_input": overlap_input,
        "diverged": rep.diverged,
    });
    if keep_log {
        let log: Vec<Value> = rep
            .log
            .iter()
            .enumerate()
            .map(|(i, e): (usize, &Event)| json!([i, e.task, e.job, simrt::kind_name(e.kind), e.name, if e.off == NO_OFF { -1i64 } else { e.off as i64 }]))
            .collect();
        out["log"] = Value::Array(log);
    }
    println!("{out}");
}

fn cmd_batch(mode: &str, inp: &str, outp: &str, timeout_s: u64) {
    let exe = std::env::current_exe().expect("current_exe");
    let reader = BufReader::new(std::fs::File::open(inp).expect("open input"));
    let mut out = std::io::BufWriter::new(std::fs::File::create(outp).expect("create output"));
    for line in reader.lines() {
        let line = line.expect("read line");
        if line.trim().is_empty() {
            continue;
        }
        // the per-simulation entropy seed is taken textually to avoid parsing the plan here
        let entropy = line
            .split("\"entropy\":")
            .nth(1)
            .map(|r| r.trim_start().chars().take_while(|c| c.is_ascii_digit()).collect::<String>())
            .unwrap_or_default();
        let mut cmd = Command::new(&exe);
        cmd.arg(mode).stdin(Stdio::piped()).stdout(Stdio::piped()).stderr(Stdio::null());
        cmd.env("VERIF_ALARM", timeout_s.to_string());
        if !entropy.is_empty() {
            cmd.env("VERIF_ENTROPY", &entropy);
        }
        let mut child = cmd.spawn().expect("spawn child");
        child.stdin.take().unwrap().write_all(line.as_bytes()).expect("write plan");
        let o = child.wait_with_output().expect("wait child");
        let text = String::from_utf8_lossy(&o.stdout);
        let text = text.trim();
        if o.status.success() && text.starts_with('{') && !text.contains('\n') {
            writeln!(out, "{text}").unwrap();
        } else {
            use std::os::unix::process::ExitStatusExt;
            let v = json!({"ok": false, "error": if o.status.signal() == Some(14) { "timeout" } else { "died" },
                           "status": o.status.code(), "signal": o.status.signal(), "stdout": text.chars().take(400).collect::<String>()});
            writeln!(out, "{v}").unwrap();
        }
    }
    out.flush().unwrap();
}

fn main() {
    if let Ok(a) = std::env::var("VERIF_ALARM") {
        if let Ok(s) = a.parse::<u32>() {
            unsafe {
                libc::alarm(s);
            }
        }
    }
    let args: Vec<String> = std::env::args().collect();
    match args.get(1).map(|s| s.as_str()) {
        Some("list") => cmd_list(),
        Some("knobs") => println!("{}", serde_json::to_string(simcorpus::SETTINGS_KNOBS).unwrap()),
        Some("oracle") => cmd_oracle(),
        Some("run") => cmd_run(),
        Some("batch") if args.len() >= 6 => cmd_batch(&args[2], &args[3], &args[4], args[5].parse().unwrap_or(60)),
        _ => {
            eprintln!("usage: sim-worker list|oracle|run|batch <run|oracle> <in> <out> <timeout_s>");
            std::process::exit(2);
        }
    }
}
