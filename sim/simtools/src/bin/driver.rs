//! proc-sim child: the library route and the build-script route of peginator_codegen,
//! linked against the working tree.  Runs under the LD_PRELOAD shim.
//!
//!   driver gen <grammar-file> [settings]         Grammar::from_str + generate_code
//!   driver compile (--file F | --dir D) [--dest P] [--prefix S] [--format] [--exit] [settings]
//!   settings: --derives a,b,c | --no-derives | --ctx some::Type
//!
//! stdout: line 1 `CANARY <iteration order of a fixed HashSet>`, line 2 `OK` / `ERR` / `IOERR`
//! (`Ok` / `Err` for compile), rest: the code or the error text.
use std::{collections::HashSet, str::FromStr};

use peginator_codegen::{CodegenGrammar, CodegenSettings, Compile, Grammar};

fn canary() -> String {
    let s: HashSet<&str> = ["alpha", "beta", "gamma", "delta", "epsilon", "zeta", "eta", "theta"].into_iter().collect();
    s.into_iter().collect::<Vec<_>>().join(",")
}

struct Opts {
    derives: Option<Vec<String>>,
    ctx: Option<String>,
    file: Option<String>,
    dir: Option<String>,
    dest: Option<String>,
    prefix: Option<String>,
    format: bool,
    exit: bool,
    again: Option<String>,
    positional: Vec<String>,
}

fn parse_opts(args: &[String]) -> Opts {
    let mut o = Opts { derives: None, ctx: None, file: None, dir: None, dest: None, prefix: None, format: false, exit: false, again: None, positional: vec![] };
    let mut i = 0;
    while i < args.len() {
        let a = args[i].as_str();
        let mut val = || {
            i += 1;
            args.get(i).cloned().unwrap_or_else(|| {
                eprintln!("missing value for option");
                std::process::exit(2)
            })
        };
        match a {
            "--derives" => o.derives = Some(val().split(',').map(|s| s.to_string()).collect()),
            "--no-derives" => o.derives = Some(vec![]),
            "--ctx" => o.ctx = Some(val()),
            "--file" => o.file = Some(val()),
            "--dir" => o.dir = Some(val()),
            "--dest" => o.dest = Some(val()),
            "--prefix" => o.prefix = Some(val()),
            "--format" => o.format = true,
            "--exit" => o.exit = true,
            "--again" => o.again = Some(val()),
            _ => o.positional.push(a.to_string()),
        }
        i += 1;
    }
    o
}

/// Builder methods are applied in the order the options were given (the result must not depend on it).
fn build_compile(rest: &[String]) -> Compile {
    let pos = |name: &str| rest.iter().position(|a| a == name).and_then(|i| rest.get(i + 1)).cloned();
    let mut c = match (pos("--file"), pos("--dir")) {
        (Some(f), _) => Compile::file(f),
        (_, Some(d)) => Compile::directory(d),
        _ => {
            eprintln!("compile needs --file or --dir");
            std::process::exit(2);
        }
    };
    let mut i = 0;
    while i < rest.len() {
        let val = |i: usize| rest.get(i + 1).cloned().unwrap_or_default();
        match rest[i].as_str() {
            "--dest" => {
                c = c.destination(val(i));
                i += 1;
            }
            "--prefix" => {
                c = c.prefix(val(i));
                i += 1;
            }
            "--format" => c = c.format(),
            "--derives" => {
                c = c.derives(val(i).split(',').map(|s| s.to_string()).collect());
                i += 1;
            }
            "--no-derives" => c = c.derives(vec![]),
            "--ctx" => {
                c = c.user_context_type(&val(i));
                i += 1;
            }
            "--file" | "--dir" => i += 1,
            _ => {}
        }
        i += 1;
    }
    c
}

fn main() {
    let args: Vec<String> = std::env::args().collect();
    if args.len() < 2 {
        eprintln!("usage: driver gen|compile ...");
        std::process::exit(2);
    }
    let o = parse_opts(&args[2..]);
    println!("CANARY {}", canary());
    match args[1].as_str() {
        "gen" => {
            let path = o.positional.first().expect("grammar file");
            let text = match std::fs::read_to_string(path) {
                Ok(t) => t,
                Err(e) => {
                    println!("IOERR\n{e}");
                    return;
                }
            };
            let mut settings = CodegenSettings::default();
            if let Some(d) = &o.derives {
                settings.derives = d.clone();
            }
            if let Some(c) = &o.ctx {
                settings.set_user_context_type(c);
            }
            // --again: the value handed to generate_code has a history (used before, cloned, printed); the LAST result is shown
            let again = o.again.clone();
            let r = Grammar::from_str(&text).map_err(|e| format!("parse error: {e:?}")).and_then(|g| {
                let gen = |g: &Grammar| g.generate_code(&settings).map_err(|e| format!("codegen error: {e:?}"));
                match again.as_deref() {
                    None => gen(&g),
                    Some("same") => {
                        let _ = gen(&g);
                        gen(&g)
                    }
                    Some("thrice") => {
                        let _ = gen(&g);
                        let _ = gen(&g);
                        gen(&g)
                    }
                    Some("clone_after") => {
                        let _ = gen(&g);
                        let c = g.clone();
                        gen(&c)
                    }
                    Some("clone_before") => {
                        let c = g.clone();
                        let _ = gen(&c);
                        drop(c);
                        gen(&g)
                    }
                    Some("debug_first") => {
                        let d = format!("{g:?}");
                        std::hint::black_box(d.len());
                        gen(&g)
                    }
                    Some(m @ ("settings_reused" | "settings_cloned" | "settings_twice")) => {
                        // the SETTINGS value has a history: it generated code for another grammar with other derives
                        // first, then its fields were set to what this run asks for (equal content, built differently)
                        let mut used = CodegenSettings::default();
                        if let Some(c) = &o.ctx {
                            used.set_user_context_type(c);
                            if m == "settings_twice" {
                                used.set_user_context_type(c);
                            }
                        }
                        used.derives = vec!["Debug".into(), "Clone".into(), "PartialEq".into(), "Eq".into(), "Hash".into(), "Default".into()];
                        if used.derives == settings.derives {
                            used.derives.truncate(2);
                        }
                        let tiny = Grammar::from_str("@export\nTiny = a:Leaf;\n@memoize\nLeaf = 'a';\n").expect("tiny grammar");
                        let _ = tiny.generate_code(&used);
                        let target = settings.derives.clone();
                        if m == "settings_cloned" {
                            let fresh = CodegenSettings { derives: target, ..used.clone() };
                            g.generate_code(&fresh).map_err(|e| format!("codegen error: {e:?}"))
                        } else {
                            used.derives = target;
                            g.generate_code(&used).map_err(|e| format!("codegen error: {e:?}"))
                        }
                    }
                    Some(other) => Err(format!("unknown --again mode {other}")),
                }
            });
            match r {
                Ok(code) => println!("OK\n{code}"),
                Err(e) => println!("ERR\n{e}"),
            }
        }
        "compile" => {
            let c = build_compile(&args[2..]);
            if o.exit {
                c.run_exit_on_error();
                println!("Returned");
            } else {
                match c.run() {
                    Ok(()) => println!("Ok"),
                    Err(e) => println!("Err\n{e:?}"),
                }
            }
        }
        "compile-script" => {
            // a whole history inside ONE process: file operations and Compile runs in sequence
            // (tab separated fields; W path hex | RM path | LN target path | MKDIR path | UT path secs |
            //  CD path | SNAP label path.. | RUN label args..); snapshots go to the directory given as second argument
            let script = std::fs::read_to_string(&o.positional[0]).expect("script");
            let snapdir = std::path::PathBuf::from(&o.positional[1]);
            std::fs::create_dir_all(&snapdir).expect("snapdir");
            for line in script.lines() {
                let f: Vec<&str> = line.split('\t').collect();
                match f[0] {
                    "W" => {
                        let p = std::path::Path::new(f[1]);
                        if let Some(parent) = p.parent() {
                            let _ = std::fs::create_dir_all(parent);
                        }
                        let bytes: Vec<u8> = (0..f[2].len() / 2).map(|i| u8::from_str_radix(&f[2][2 * i..2 * i + 2], 16).unwrap()).collect();
                        std::fs::write(p, bytes).expect("script write");
                    }
                    "RM" => {
                        let p = std::path::Path::new(f[1]);
                        match std::fs::symlink_metadata(p) {
                            Ok(m) if m.is_dir() => {
                                let _ = std::fs::remove_dir_all(p);
                            }
                            Ok(_) => {
                                let _ = std::fs::remove_file(p);
                            }
                            Err(_) => {}
                        }
                    }
                    "LN" => {
                        std::os::unix::fs::symlink(f[1], f[2]).expect("script symlink");
                    }
                    "MKDIR" => {
                        std::fs::create_dir_all(f[1]).expect("script mkdir");
                    }
                    "UT" => {
                        let t = std::time::UNIX_EPOCH + std::time::Duration::from_secs(f[2].parse().unwrap());
                        if let Ok(file) = std::fs::File::options().write(true).open(f[1]) {
                            let _ = file.set_times(std::fs::FileTimes::new().set_accessed(t).set_modified(t));
                        }
                    }
                    "SNAP" => {
                        for (i, path) in f[2..].iter().enumerate() {
                            let mt = snapdir.join(format!("{}.{}.mt", f[1], i));
                            match std::fs::symlink_metadata(path) {
                                Ok(m) if m.is_file() => {
                                    let ns = m.modified().unwrap().duration_since(std::time::UNIX_EPOCH).unwrap().as_nanos();
                                    std::fs::copy(path, snapdir.join(format!("{}.{}.bin", f[1], i))).expect("snap copy");
                                    std::fs::write(mt, ns.to_string()).unwrap();
                                }
                                Ok(_) => std::fs::write(mt, "notfile").unwrap(),
                                Err(_) => std::fs::write(mt, "absent").unwrap(),
                            }
                        }
                    }
                    "CD" => {
                        std::env::set_current_dir(f[1]).expect("script chdir");
                    }
                    "RUN" => {
                        let a: Vec<String> = f[2..].iter().map(|s| s.replace("\\n", "\n")).collect();
                        let c = build_compile(&a);
                        match c.run() {
                            Ok(()) => println!("RESULT\t{}\tOk", f[1]),
                            Err(e) => println!("RESULT\t{}\tErr\t{}", f[1], format!("{e:?}").replace('\n', " ").chars().take(200).collect::<String>()),
                        }
                    }
                    _ => {}
                }
            }
        }
        "gen-multi" => {
            // library route called repeatedly in one process: prints the result for the LAST file only
            let mut settings = CodegenSettings::default();
            if let Some(d) = &o.derives {
                settings.derives = d.clone();
            }
            if let Some(c) = &o.ctx {
                settings.set_user_context_type(c);
            }
            let mut last = String::from("ERR\nno input");
            for path in &o.positional {
                let text = match std::fs::read_to_string(path) {
                    Ok(t) => t,
                    Err(e) => {
                        last = format!("IOERR\n{e}");
                        continue;
                    }
                };
                let r = Grammar::from_str(&text)
                    .map_err(|e| format!("parse error: {e:?}"))
                    .and_then(|g| g.generate_code(&settings).map_err(|e| format!("codegen error: {e:?}")));
                last = match r {
                    Ok(code) => format!("OK\n{code}"),
                    Err(e) => format!("ERR\n{e}"),
                };
            }
            println!("{last}");
        }
        _ => {
            eprintln!("unknown subcommand");
            std::process::exit(2);
        }
    }
}
