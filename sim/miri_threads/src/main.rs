fn main(){}
