//! miri-sched: concurrent parses under Miri's seeded scheduler (preemption inside rule
//! bodies, data-race and UB detection).  Results of 3 threads must equal the sequential ones.
use std::sync::Arc;

use simcorpus::{dispatch, Ctx, Entry, VARIANTS};

const INPUTS: &[(&str, &[&str])] = &[
    ("stmt", &["a.b[1]=c+2*d;", "call f(1,2);", "a+;", "((a));", "a     =   b    +       c ;", "call      f(  1 ,      2 );"]),
    ("anbn", &["aabb.", "aabc.", "aab."]),
    ("twins", &["ab:c1,d", "a:b:c", "a1,b:c"]),
    ("calc", &["1+2*3-4/5", "(1+2)*3", "1+", "1    +      2  *       3", "(     1 +  2 )       * 3"]),
    ("calc_indirect", &["1+-2*3", "-(1-2)*-3", "(1"]),
    ("hooks_pure", &["<ab>text;12 a", "!ab 12", "<abcd>long;"]),
    ("hooks_ctx", &["ab a a", "ab a a a a a a", "ab a a z"]),
    ("ws_pos", &["a→«x y» +b", "é→ű # c\n+k", "a→"]),
    ("enums", &["a1b()c2;a3 y", "b(a1b(x)2);b()z", "a;1"]),
    ("pal", &["abba", "aabaa", "abab"]),
    ("incl", &["(a=b,c,d=e)", "(a,b=c,d)", "(a"]),
    ("names_a", &["a,b1,12", "a;b1"]),
    ("names_b", &["_x;A;3.5", "a,b1"]),
    ("ws_mix", &["[ab cd]", "[ab cd!", "[ab      cd]   ef"]),
    ("memo_ctx", &["a:<k> b c=d;", "use a.b.c;", "a    :   <k>     b ;"]),
    ("memo_mix", &["#a:#b!", "[#a,#b];", "type     t =    x;"]),
    ("shift", &["xab cd!", "xab cd?", "xab      cd    ?"]),
    ("kw", &["select a from b", "SELECT      x     FROM y"]),
    ("reent_nested", &["begin a=select x from y; end", "BEGIN skip;     a=abc;    End"]),
    ("reent_plain", &["begin a=select x; end"]),
];

struct Rng(u64);
impl Rng {
    fn next(&mut self) -> u64 {
        self.0 = self.0.wrapping_add(0x9E3779B97F4A7C15);
        let mut z = self.0;
        z = (z ^ (z >> 30)).wrapping_mul(0xBF58476D1CE4E5B9);
        z = (z ^ (z >> 27)).wrapping_mul(0x94D049BB133111EB);
        z ^ (z >> 31)
    }
}

#[derive(Clone)]
struct Job {
    variant: &'static str,
    rule: &'static str,
    input: String,
    entry: Entry,
    ctx: Ctx,
}

fn run(j: &Job) -> (String, Ctx) {
    dispatch(j.variant, j.rule, &j.input, j.entry, j.ctx).expect("known job")
}

/// One round per grammar: three threads start the same parses of that grammar at the same time, so that whatever the
/// grammar's features initialise lazily on first use (tables, caches, registries) is initialised under contention.
/// The sequential reference is computed after all rounds.
fn first_use_rounds(seed: u64) {
    let mut rng = Rng(seed);
    let mut rounds: Vec<(Vec<Job>, Vec<Vec<(String, Ctx)>>)> = Vec::new();
    for (g, inputs) in INPUTS {
        let vs: Vec<_> = VARIANTS.iter().filter(|v| v.grammar == *g).collect();
        if vs.is_empty() {
            continue;
        }
        let v = vs[(rng.next() % vs.len() as u64) as usize];
        let jobs: Vec<Job> = inputs
            .iter()
            .rev()
            .take(2)
            .map(|i| Job { variant: v.name, rule: v.exported[0], input: i.to_string(), entry: Entry::Parse, ctx: Ctx { retval: 7, a_count: 3, calls: 0 } })
            .collect();
        let shared = Arc::new(jobs.clone());
        let barrier = Arc::new(std::sync::Barrier::new(3));
        let handles: Vec<_> = (0..3)
            .map(|_| {
                let shared = shared.clone();
                let barrier = barrier.clone();
                std::thread::spawn(move || {
                    barrier.wait();
                    shared.iter().map(run).collect::<Vec<_>>()
                })
            })
            .collect();
        let results = handles.into_iter().map(|h| h.join().expect("thread")).collect();
        rounds.push((jobs, results));
    }
    let mut bad = 0;
    for (jobs, results) in &rounds {
        let reference: Vec<(String, Ctx)> = jobs.iter().map(run).collect();
        for (t, r) in results.iter().enumerate() {
            for (i, got) in r.iter().enumerate() {
                if *got != reference[i] {
                    bad += 1;
                    println!("DIFFERENCE first-use round, thread {t} ({}, {:?}): sequential reference {:?}, concurrent {:?}", jobs[i].variant, jobs[i].input, reference[i], got);
                }
            }
        }
    }
    if bad == 0 {
        println!("MIRI_THREADS ok seed={seed} rounds={} threads=3", rounds.len());
    } else {
        std::process::exit(1);
    }
}

fn main() {
    let seed: u64 = std::env::args().nth(1).and_then(|s| s.parse().ok()).unwrap_or(1);
    let njobs: usize = std::env::args().nth(2).and_then(|s| s.parse().ok()).unwrap_or(20);
    // "ws": only inputs with long whitespace runs through the built-in skipper, parsed by all threads at once
    let mode = std::env::args().nth(3).unwrap_or_default();
    if std::env::args().nth(3).as_deref() == Some("first") {
        return first_use_rounds(seed);
    }
    let mut rng = Rng(seed);
    let mut jobs = Vec::new();
    while jobs.len() < njobs {
        let v = &VARIANTS[(rng.next() % VARIANTS.len() as u64) as usize];
        let inputs = INPUTS.iter().find(|(g, _)| *g == v.grammar).map(|(_, i)| *i).unwrap_or(&[""]);
        let input = inputs[(rng.next() % inputs.len() as u64) as usize];
        if mode == "ws" && !(input.contains("    ") && !["ws_pos", "ws_mix"].contains(&v.grammar)) {
            continue;
        }
        // "lr": only grammars with @leftrec rules (their seed-and-grow loop rewrites cache entries), all threads at once
        if (mode == "lr" || mode == "pool") && !["calc", "calc_indirect"].contains(&v.grammar) {
            continue;
        }
        // parse_with_trace prints a lot; keep it to a minority of the jobs
        let entry = match if mode == "ws" || mode == "lr" || mode == "pool" { 7 } else { rng.next() % 8 } {
            0 => Entry::Trace,
            1 | 2 => Entry::Noop,
            3 => Entry::Sim,
            _ => Entry::Parse,
        };
        jobs.push(Job { variant: v.name, rule: v.exported[0], input: input.to_string(), entry, ctx: Ctx { retval: (rng.next() % 50) as u32, a_count: (rng.next() % 6) as u32, calls: 0 } });
    }
    if mode == "pool" {
        // one large input on a fully memoized variant among small @leftrec jobs: resources handed from one parse to the
        // next (tables, buffers, pools) are large when they come back while other threads are asking for theirs
        let big = "select abc from defgh where X ".repeat(20);
        let v = VARIANTS.iter().filter(|v| v.grammar == "kw").max_by_key(|v| v.mask).expect("kw variant");
        let k = jobs.len() / 2;
        jobs.insert(k, Job { variant: v.name, rule: v.exported[0], input: big, entry: Entry::Parse, ctx: Ctx::default() });
    }
    // sequential reference: computed before any thread exists, or ("late" as 4th argument) after the threads are done,
    // so that whatever is initialised lazily on first use is first used concurrently
    let late = std::env::args().nth(4).as_deref() == Some("late") || mode == "late";
    let expected: Vec<(String, Ctx)> = if late { Vec::new() } else { jobs.iter().map(run).collect() };
    let jobs = Arc::new(jobs);
    let expected = Arc::new(expected);
    let mut handles = Vec::new();
    for t in 0..3u64 {
        let jobs = jobs.clone();
        let expected = expected.clone();
        handles.push(std::thread::spawn(move || {
            let mut bad = Vec::new();
            let n = jobs.len();
            for k in 0..n {
                // each thread walks the job list in its own order, so equal jobs overlap
                let i = (k * (2 * t as usize + 1) + t as usize * 7) % n;
                let got = run(&jobs[i]);
                if expected.is_empty() {
                    bad.push((i, got));
                } else if got != expected[i] {
                    bad.push((usize::MAX, (format!("thread {t} job {i} ({}, {:?}): expected {:?}, got {:?}", jobs[i].variant, jobs[i].input, expected[i], got), Ctx::default())));
                }
            }
            bad
        }));
    }
    let mut bad = Vec::new();
    let mut collected = Vec::new();
    for h in handles {
        for (i, r) in h.join().expect("thread") {
            if i == usize::MAX {
                bad.push(r.0);
            } else {
                collected.push((i, r));
            }
        }
    }
    if late {
        let reference: Vec<(String, Ctx)> = jobs.iter().map(run).collect();
        for (i, got) in collected {
            if got != reference[i] {
                bad.push(format!("job {i} ({}, {:?}): sequential reference {:?}, concurrent {:?}", jobs[i].variant, jobs[i].input, reference[i], got));
            }
        }
    }
    if bad.is_empty() {
        println!("MIRI_THREADS ok seed={seed} jobs={njobs} threads=3");
    } else {
        for b in &bad {
            println!("DIFFERENCE {b}");
        }
        std::process::exit(1);
    }
}
