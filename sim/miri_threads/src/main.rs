//! miri-sched: concurrent parses under Miri's seeded scheduler (preemption inside rule
//! bodies, data-race and UB detection).  Results of 3 threads must equal the sequential ones.
use std::sync::Arc;

use simcorpus::{dispatch, Ctx, Entry, VARIANTS};

const INPUTS: &[(&str, &[&str])] = &[
    ("stmt", &["a.b[1]=c+2*d;", "call f(1,2);", "a+;", "((a));", "a     =   b    +       c ;", "call      f(  1 ,      2 );"]),
    ("anbn", &["aabb.", "aabc.", "aab."]),
    ("twins", &["ab:c1,d", "a:b:c", "a1,b:c"]),
    ("calc", &["1+2*3-4/5", "(1+2)*3", "1+", "1    +      2  *       3", "(     1 +  2 )       * 3"]),
    ("calc_indirect", &["1+-2*3", "-(1-2)*-3", "(1"]),
    ("hooks_pure", &["<ab>text;12 a", "!ab 12", "<abcd>long;"]),
    ("hooks_ctx", &["ab a a", "ab a a a a a a", "ab a a z"]),
    ("ws_pos", &["a→«x y» +b", "é→ű # c\n+k", "a→"]),
    ("enums", &["a1b()c2;a3 y", "b(a1b(x)2);b()z", "a;1"]),
    ("pal", &["abba", "aabaa", "abab"]),
    ("incl", &["(a=b,c,d=e)", "(a,b=c,d)", "(a"]),
    ("names_a", &["a,b1,12", "a;b1"]),
    ("names_b", &["_x;A;3.5", "a,b1"]),
    ("ws_mix", &["[ab cd]", "[ab cd!", "[ab      cd]   ef"]),
    ("memo_ctx", &["a:<k> b c=d;", "use a.b.c;", "a    :   <k>     b ;"]),
    ("memo_mix", &["#a:#b!", "[#a,#b];", "type     t =    x;"]),
    ("shift", &["xab cd!", "xab cd?", "xab      cd    ?"]),
    ("kw", &["select a from b", "SELECT      x     FROM y"]),
    ("reent_nested", &["begin a=select x from y; end", "BEGIN skip;     a=abc;    End"]),
    ("reent_plain", &["begin a=select x; end"]),
];

struct Rng(u64);
impl Rng {
    fn next(&mut self) -> u64 {
        self.0 = self.0.wrapping_add(0x9E3779B97F4A7C15);
        let mut z = self.0;
        z = (z ^ (z >> 30)).wrapping_mul(0xBF58476D1CE4E5B9);
        z = (z ^ (z >> 27)).wrapping_mul(0x94D049BB133111EB);
        z ^ (z >> 31)
    }
}

#[derive(Clone)]
struct Job {
    variant: &'static str,
    rule: &'static str,
    input: String,
    entry: Entry,
    ctx: Ctx,
}

fn run(j: &Job) -> (String, Ctx) {
    dispatch(j.variant, j.rule, &j.input, j.entry, j.ctx).expect("known job")
}

/// One round per grammar: three threads start the same parses of that grammar at the same time, so that whatever the
/// grammar's features initialise lazily on first use (tables, caches, registries) is initialised under contention.
/// The sequential reference is computed after all rounds.
/// Reference results from ANOTHER process (a native, sequential run of this program in mode `first-ref`): a corruption
/// that sticks to the process once it has happened would spoil an in-process reference in the same way as the results.
fn load_reference(path: Option<String>) -> std::collections::HashMap<(String, String), String> {
    let mut m = std::collections::HashMap::new();
    if let Some(p) = path {
        let text = std::fs::read_to_string(&p).expect("reference file");
        for l in text.lines() {
            // REF <variant> <input> <result>   or   REF <variant> <rule> <input> <result>  (inputs are Debug-quoted)
            let f: Vec<&str> = l.split('\t').collect();
            if f.len() == 4 && f[0] == "REF" {
                m.insert((f[1].to_string(), f[2].to_string()), f[3].to_string());
            } else if f.len() == 5 && f[0] == "REF" {
                m.insert((format!("{}\t{}", f[1], f[2]), f[3].to_string()), f[4].to_string());
            }
        }
        assert!(!m.is_empty(), "empty reference file");
    }
    m
}

fn first_use_rounds(seed: u64, reference_only: bool, reference_file: Option<String>) {
    let external = load_reference(reference_file);
    let reference_of = |j: &Job| -> String {
        match external.get(&(j.variant.to_string(), format!("{:?}", j.input))) {
            Some(r) => r.clone(),
            None => {
                assert!(external.is_empty(), "job missing from the reference file: {} {:?}", j.variant, j.input);
                format!("{:?}", run(j))
            }
        }
    };
    let mut rng = Rng(seed);
    let mut rounds: Vec<(Vec<Job>, Vec<Vec<(String, Ctx)>>)> = Vec::new();
    for (g, inputs) in INPUTS {
        let vs: Vec<_> = VARIANTS.iter().filter(|v| v.grammar == *g).collect();
        if vs.is_empty() {
            continue;
        }
        let v = vs[(rng.next() % vs.len() as u64) as usize];
        let jobs: Vec<Job> = inputs
            .iter()
            .rev()
            .take(2)
            .map(|i| Job { variant: v.name, rule: v.exported[0], input: i.to_string(), entry: Entry::Parse, ctx: Ctx { retval: 7, a_count: 3, calls: 0 } })
            .collect();
        if reference_only {
            for j in &jobs {
                println!("REF\t{}\t{:?}\t{:?}", j.variant, j.input, run(j));
            }
            continue;
        }
        let shared = Arc::new(jobs.clone());
        let barrier = Arc::new(std::sync::Barrier::new(3));
        let handles: Vec<_> = (0..3)
            .map(|_| {
                let shared = shared.clone();
                let barrier = barrier.clone();
                std::thread::spawn(move || {
                    barrier.wait();
                    shared.iter().map(run).collect::<Vec<_>>()
                })
            })
            .collect();
        let results = handles.into_iter().map(|h| h.join().expect("thread")).collect();
        rounds.push((jobs, results));
    }
    // mixed rounds: three DIFFERENT grammars start at the same time, each thread meeting texts, rules and errors that no
    // other thread has met (whatever the runtime registers or interns on first sight is registered under contention)
    let mut mixed: Vec<(Vec<Job>, Vec<(String, Ctx)>)> = Vec::new();
    let groups: Vec<&(&str, &[&str])> = INPUTS.iter().filter(|(g, _)| VARIANTS.iter().any(|v| v.grammar == *g)).collect();
    for trio in groups.chunks(3) {
        let barrier = Arc::new(std::sync::Barrier::new(trio.len()));
        let mut handles = Vec::new();
        let mut all_jobs = Vec::new();
        for (g, inputs) in trio.iter().map(|x| **x) {
            let vs: Vec<_> = VARIANTS.iter().filter(|v| v.grammar == g).collect();
            let v = vs[(rng.next() % vs.len() as u64) as usize];
            // failing inputs first (they are listed last), each with a tail no other thread uses
            let jobs: Vec<Job> = inputs
                .iter()
                .rev()
                .map(|i| Job { variant: v.name, rule: v.exported[0], input: format!("{i}{}", ["", " ?", " %"][(rng.next() % 3) as usize]), entry: Entry::Parse, ctx: Ctx { retval: 7, a_count: 3, calls: 0 } })
                .collect();
            if reference_only {
                for j in &jobs {
                    println!("REF\t{}\t{:?}\t{:?}", j.variant, j.input, run(j));
                }
                continue;
            }
            all_jobs.push(jobs.clone());
            let barrier = barrier.clone();
            handles.push(std::thread::spawn(move || {
                barrier.wait();
                jobs.iter().map(run).collect::<Vec<_>>()
            }));
        }
        for (jobs, h) in all_jobs.into_iter().zip(handles) {
            mixed.push((jobs, h.join().expect("thread")));
        }
    }
    if reference_only {
        return;
    }
    let mut bad = 0;
    for (jobs, got) in &mixed {
        for (j, g) in jobs.iter().zip(got) {
            let reference = reference_of(j);
            let g = format!("{g:?}");
            if g != reference {
                bad += 1;
                println!("DIFFERENCE mixed first-use round ({}, {:?}): sequential reference {:?}, concurrent {:?}", j.variant, j.input, reference, g);
            }
        }
    }
    for (jobs, results) in &rounds {
        let reference: Vec<String> = jobs.iter().map(|j| reference_of(j)).collect();
        for (t, r) in results.iter().enumerate() {
            for (i, got) in r.iter().enumerate() {
                let got = format!("{got:?}");
                if got != reference[i] {
                    bad += 1;
                    println!("DIFFERENCE first-use round, thread {t} ({}, {:?}): sequential reference {:?}, concurrent {:?}", jobs[i].variant, jobs[i].input, reference[i], got);
                }
            }
        }
    }
    if bad == 0 {
        println!("MIRI_THREADS ok seed={seed} rounds={} threads=3", rounds.len());
    } else {
        std::process::exit(1);
    }
}

/// Lock-step rounds: three threads, each with its own grammars, meet at a barrier before EVERY parse, and every parse
/// is a short text that fails somewhere new (a sentence cut at a seeded place, or a character nobody expects), so that
/// in every step three threads see rules, literals and error kinds for the first time in the process at the same moment.
/// A rendezvous per step lines up what random preemption alone almost never lines up: check-then-act windows in
/// whatever the runtime registers, interns or counts on first sight.  Judged against the out-of-process reference.
fn lockstep_rounds(seed: u64, reference_only: bool, reference_file: Option<String>) {
    let external = load_reference(reference_file);
    let mut rng = Rng(seed ^ 0x10C4);
    let groups: Vec<&(&str, &[&str])> = INPUTS.iter().filter(|(g, _)| VARIANTS.iter().any(|v| v.grammar == *g)).collect();
    // probes of thread t: grammars t, t+3, t+6, ..; per grammar every sentence cut at two seeded places and with a foreign tail
    let mut lists: Vec<Vec<Job>> = vec![Vec::new(), Vec::new(), Vec::new()];
    for (gi, (g, inputs)) in groups.iter().map(|x| **x).enumerate() {
        let vs: Vec<_> = VARIANTS.iter().filter(|v| v.grammar == g).collect();
        let v = vs[(rng.next() % vs.len() as u64) as usize];
        for inp in inputs.iter() {
            let chars: Vec<char> = inp.chars().collect();
            for _ in 0..4 {
                let cut = (rng.next() % (chars.len() as u64 + 1)) as usize;
                let mut text: String = chars[..cut].iter().collect();
                text.push_str(["", "%", "\u{1}", " ~"][(rng.next() % 4) as usize]);
                let rule = v.exported[(rng.next() % v.exported.len() as u64) as usize];
                lists[gi % 3].push(Job { variant: v.name, rule, input: text, entry: Entry::Parse, ctx: Ctx { retval: 7, a_count: 3, calls: 0 } });
            }
        }
    }
    let steps = lists.iter().map(|l| l.len()).min().unwrap_or(0).min(120);
    if reference_only {
        for l in &lists {
            for j in &l[..steps] {
                println!("REF\t{}\t{}\t{:?}\t{:?}", j.variant, j.rule, j.input, run(j));
            }
        }
        return;
    }
    let barrier = Arc::new(std::sync::Barrier::new(3));
    let handles: Vec<_> = lists
        .into_iter()
        .map(|l| {
            let barrier = barrier.clone();
            std::thread::spawn(move || {
                let mut out = Vec::new();
                for j in &l[..steps] {
                    barrier.wait();
                    out.push((j.clone(), format!("{:?}", run(j))));
                }
                out
            })
        })
        .collect();
    let mut bad = 0;
    for h in handles {
        for (j, got) in h.join().expect("thread") {
            let reference = match external.get(&(format!("{}\t{}", j.variant, j.rule), format!("{:?}", j.input))) {
                Some(r) => r.clone(),
                None => {
                    assert!(external.is_empty(), "job missing from the reference file: {} {} {:?}", j.variant, j.rule, j.input);
                    format!("{:?}", run(&j))
                }
            };
            if got != reference {
                bad += 1;
                println!("DIFFERENCE lock-step round ({} {}, {:?}): out-of-process reference {}, concurrent {}", j.variant, j.rule, j.input, reference, got);
            }
        }
    }
    if bad == 0 {
        println!("MIRI_THREADS ok seed={seed} lockstep_steps={steps} threads=3");
    } else {
        std::process::exit(1);
    }
}

/// Tracing rounds: one thread runs `parse_with_trace` on a text nested a few hundred rule calls deep while two others
/// run short traced parses one after the other (whatever the built-in tracer shares between threads - indentation,
/// buffers, counters - is grown by one thread while the others begin and end traces).
fn trace_rounds(seed: u64, parens: usize) {
    let mut rng = Rng(seed ^ 0x7ACE);
    let pick = |g: &str, rng: &mut Rng| {
        let vs: Vec<_> = VARIANTS.iter().filter(|v| v.grammar == g).collect();
        vs[(rng.next() % vs.len() as u64) as usize]
    };
    // grammar `chain`: one rule call per pair of parentheses, matched by the first alternative of the root (no second
    // descent); every traced line costs Miri tens of milliseconds, so the depth is the caller's choice
    let depth = parens + (rng.next() % 15) as usize;
    let v = pick("chain", &mut rng);
    let deep = Job { variant: v.name, rule: v.exported[0], input: format!("{}x{}!", "(".repeat(depth), ")".repeat(depth)), entry: Entry::Trace, ctx: Ctx::default() };
    let mut lists: Vec<Vec<Job>> = vec![vec![deep], Vec::new(), Vec::new()];
    for t in 1..3 {
        for _ in 0..5 {
            let (g, inputs) = INPUTS[(rng.next() % INPUTS.len() as u64) as usize];
            if !VARIANTS.iter().any(|v| v.grammar == g) || g.starts_with("reent") {
                continue;
            }
            let v = pick(g, &mut rng);
            let input = inputs[(rng.next() % inputs.len() as u64) as usize];
            lists[t].push(Job { variant: v.name, rule: v.exported[0], input: input.chars().take(2).collect(), entry: Entry::Trace, ctx: Ctx { retval: 7, a_count: 3, calls: 0 } });
        }
    }
    let barrier = Arc::new(std::sync::Barrier::new(3));
    let deep_done = Arc::new(std::sync::atomic::AtomicBool::new(false));
    let handles: Vec<_> = lists
        .into_iter()
        .enumerate()
        .map(|(t, l)| {
            let barrier = barrier.clone();
            let deep_done = deep_done.clone();
            std::thread::spawn(move || {
                barrier.wait();
                let mut out = Vec::new();
                if t == 0 {
                    out.extend(l.iter().map(|j| (j.clone(), run(j))));
                    deep_done.store(true, std::sync::atomic::Ordering::SeqCst);
                } else {
                    // short traces begin and end for as long as the deep one is running (at most 12 rounds: Miri keeps the
                    // history of every access, a long run costs gigabytes)
                    for _round in 0..12 {
                        out.extend(l.iter().map(|j| (j.clone(), run(j))));
                        if deep_done.load(std::sync::atomic::Ordering::SeqCst) {
                            break;
                        }
                    }
                }
                out
            })
        })
        .collect();
    let mut bad = 0;
    let mut n = 0;
    for h in handles {
        for (j, got) in h.join().expect("thread") {
            n += 1;
            let reference = run(&Job { entry: Entry::Parse, ..j.clone() });
            if got != reference {
                bad += 1;
                println!("DIFFERENCE traced parse ({}, {:?}): untraced sequential reference {:?}, traced concurrent {:?}", j.variant, j.input, reference, got);
            }
        }
    }
    if bad == 0 {
        println!("MIRI_THREADS ok seed={seed} traced_jobs={n} threads=3");
    } else {
        std::process::exit(1);
    }
}

fn main() {
    if std::env::args().nth(3).as_deref() == Some("trace") {
        return trace_rounds(std::env::args().nth(1).and_then(|s| s.parse().ok()).unwrap_or(1), std::env::args().nth(4).and_then(|s| s.parse().ok()).unwrap_or(45));
    }
    if std::env::args().nth(3).as_deref() == Some("lockstep") {
        return lockstep_rounds(std::env::args().nth(1).and_then(|s| s.parse().ok()).unwrap_or(1), false, std::env::args().nth(4));
    }
    if std::env::args().nth(3).as_deref() == Some("lockstep-ref") {
        return lockstep_rounds(std::env::args().nth(1).and_then(|s| s.parse().ok()).unwrap_or(1), true, None);
    }
    let seed: u64 = std::env::args().nth(1).and_then(|s| s.parse().ok()).unwrap_or(1);
    let njobs: usize = std::env::args().nth(2).and_then(|s| s.parse().ok()).unwrap_or(20);
    // "ws": only inputs with long whitespace runs through the built-in skipper, parsed by all threads at once
    let mode = std::env::args().nth(3).unwrap_or_default();
    if std::env::args().nth(3).as_deref() == Some("first") {
        return first_use_rounds(seed, false, std::env::args().nth(4));
    }
    if std::env::args().nth(3).as_deref() == Some("first-ref") {
        return first_use_rounds(seed, true, None);
    }
    let mut rng = Rng(seed);
    let mut jobs = Vec::new();
    while jobs.len() < njobs {
        let v = &VARIANTS[(rng.next() % VARIANTS.len() as u64) as usize];
        let inputs = INPUTS.iter().find(|(g, _)| *g == v.grammar).map(|(_, i)| *i).unwrap_or(&[""]);
        let input = inputs[(rng.next() % inputs.len() as u64) as usize];
        if mode == "ws" && !(input.contains("    ") && !["ws_pos", "ws_mix"].contains(&v.grammar)) {
            continue;
        }
        // "lr": only grammars with @leftrec rules (their seed-and-grow loop rewrites cache entries), all threads at once
        if (mode == "lr" || mode == "pool") && !["calc", "calc_indirect"].contains(&v.grammar) {
            continue;
        }
        // parse_with_trace prints a lot; keep it to a minority of the jobs
        let entry = match if mode == "ws" || mode == "lr" || mode == "pool" { 7 } else { rng.next() % 8 } {
            0 => Entry::Trace,
            1 | 2 => Entry::Noop,
            3 => Entry::Sim,
            _ => Entry::Parse,
        };
        jobs.push(Job { variant: v.name, rule: v.exported[0], input: input.to_string(), entry, ctx: Ctx { retval: (rng.next() % 50) as u32, a_count: (rng.next() % 6) as u32, calls: 0 } });
    }
    if mode == "pool" {
        // one large input on a fully memoized variant among small @leftrec jobs: resources handed from one parse to the
        // next (tables, buffers, pools) are large when they come back while other threads are asking for theirs
        let big = "select abc from defgh where X ".repeat(20);
        let v = VARIANTS.iter().filter(|v| v.grammar == "kw").max_by_key(|v| v.mask).expect("kw variant");
        let k = jobs.len() / 2;
        jobs.insert(k, Job { variant: v.name, rule: v.exported[0], input: big, entry: Entry::Parse, ctx: Ctx::default() });
    }
    // sequential reference: computed before any thread exists, or ("late" as 4th argument) after the threads are done,
    // so that whatever is initialised lazily on first use is first used concurrently
    let late = std::env::args().nth(4).as_deref() == Some("late") || mode == "late";
    let expected: Vec<(String, Ctx)> = if late { Vec::new() } else { jobs.iter().map(run).collect() };
    let jobs = Arc::new(jobs);
    let expected = Arc::new(expected);
    let mut handles = Vec::new();
    for t in 0..3u64 {
        let jobs = jobs.clone();
        let expected = expected.clone();
        handles.push(std::thread::spawn(move || {
            let mut bad = Vec::new();
            let n = jobs.len();
            for k in 0..n {
                // each thread walks the job list in its own order, so equal jobs overlap
                let i = (k * (2 * t as usize + 1) + t as usize * 7) % n;
                let got = run(&jobs[i]);
                if expected.is_empty() {
                    bad.push((i, got));
                } else if got != expected[i] {
                    bad.push((usize::MAX, (format!("thread {t} job {i} ({}, {:?}): expected {:?}, got {:?}", jobs[i].variant, jobs[i].input, expected[i], got), Ctx::default())));
                }
            }
            bad
        }));
    }
    let mut bad = Vec::new();
    let mut collected = Vec::new();
    for h in handles {
        for (i, r) in h.join().expect("thread") {
            if i == usize::MAX {
                bad.push(r.0);
            } else {
                collected.push((i, r));
            }
        }
    }
    if late {
        let reference: Vec<(String, Ctx)> = jobs.iter().map(run).collect();
        for (i, got) in collected {
            if got != reference[i] {
                bad.push(format!("job {i} ({}, {:?}): sequential reference {:?}, concurrent {:?}", jobs[i].variant, jobs[i].input, reference[i], got));
            }
        }
    }
    if bad.is_empty() {
        println!("MIRI_THREADS ok seed={seed} jobs={njobs} threads=3");
    } else {
        for b in &bad {
            println!("DIFFERENCE {b}");
        }
        std::process::exit(1);
    }
}
