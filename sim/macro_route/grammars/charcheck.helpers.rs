pub fn check_letter(c: char) -> bool { c != 'q' && c != 'c' && c != 'y' }
pub fn check_third(c: char) -> bool { c != 'x' }
pub fn check_digit(c: char) -> bool { c != '7' }
