#[derive(Debug, Clone, PartialEq, Eq)]
pub struct LocalWord(pub String);
pub fn helper_word(s: &str) -> Result<(LocalWord, usize), &'static str> {
    let n = s.bytes().take_while(|b| b.is_ascii_lowercase()).count();
    if n == 0 { Err("word") } else { Ok((LocalWord(s[..n].to_string()), n)) }
}
pub fn helper_check(t: &Tag) -> bool { t.c != 'q' }
pub fn helper_up(s: &str) -> Result<(crate::Up2, usize), &'static str> {
    match s.chars().next() { Some(c) if c.is_ascii_uppercase() => Ok((crate::Up2(c), 1)), _ => Err("upper") }
}
