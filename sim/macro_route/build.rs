// For every grammar: module c_<name> = library-route output, module m_<name> = peginate!(<same text>),
// plus a probe file included into both that reports, per generated type, its size, alignment and
// which of a fixed list of traits it implements.
use std::{env, fmt::Write as _, fs, path::PathBuf, str::FromStr};

use peginator_codegen::{CodegenGrammar, CodegenSettings, Grammar};

fn type_names(code: &str) -> Vec<String> {
    // token-stream rendering: `pub struct Name`, `pub enum Name`, `pub type Name`
    let toks: Vec<&str> = code.split_whitespace().collect();
    let mut names = Vec::new();
    let mut depth = 0i32;
    for i in 0..toks.len() {
        match toks[i] {
            "{" => depth += 1,
            "}" => depth -= 1,
            "pub" if depth == 0 && i + 2 < toks.len() && ["struct", "enum", "type"].contains(&toks[i + 1]) => {
                let n = toks[i + 2].trim_end_matches(';').to_string();
                if !names.contains(&n) {
                    names.push(n);
                }
            }
            _ => {}
        }
    }
    names
}

fn exported(g: &Grammar) -> Vec<String> {
    use peginator_codegen::grammar::{DirectiveExpression, Grammar_rules};
    g.rules
        .iter()
        .filter_map(|r| match r {
            Grammar_rules::Rule(r) if r.directives.iter().any(|d| matches!(d, DirectiveExpression::ExportDirective(_))) => Some(r.name.clone()),
            _ => None,
        })
        .collect()
}

fn main() {
    let dir = PathBuf::from(env::var("CARGO_MANIFEST_DIR").unwrap()).join("grammars");
    let out = PathBuf::from(env::var("OUT_DIR").unwrap());
    println!("cargo:rerun-if-changed={}", dir.display());
    println!("cargo:rerun-if-env-changed=VERIF_MACRO_NONCE");
    let mut mods = String::new();
    let mut table = String::new();
    let mut files: Vec<_> = fs::read_dir(&dir).unwrap().map(|e| e.unwrap().path()).filter(|p| p.extension().map_or(false, |e| e == "ebnf")).collect();
    files.sort();
    for path in files {
        let name = path.file_stem().unwrap().to_str().unwrap().to_string();
        let text = fs::read_to_string(&path).unwrap();
        let grammar = Grammar::from_str(&text).expect("macro_route grammar parses");
        let code = grammar.generate_code(&CodegenSettings::default()).expect("macro_route grammar compiles").to_string();
        fs::write(out.join(format!("{name}_lib.rs")), &code).unwrap();
        let names = type_names(&code);
        let mut probe = String::from("pub fn type_report() -> Vec<String> { let mut v = Vec::new();\n");
        for n in &names {
            writeln!(probe, "    v.push(crate::probe_line!({:?}, {n}));", n.trim_start_matches("r#")).unwrap();
        }
        probe.push_str("    v }\n");
        let root = exported(&grammar).into_iter().next().expect("an exported rule");
        let root = if ["type", "fn", "loop", "match", "mod"].contains(&root.as_str()) { format!("r#{root}") } else { root };
        writeln!(probe, "pub fn parse_debug(s: &str) -> String {{ use peginator::PegParser; format!(\"{{:?}}\", {root}::parse(s)) }}").unwrap();
        // items the grammar refers to by relative path, present in every module that holds a parser of this grammar
        if let Ok(h) = fs::read_to_string(dir.join(format!("{name}.helpers.rs"))) {
            probe.push_str(&h);
        }
        fs::write(out.join(format!("{name}_probe.rs")), probe).unwrap();
        let hashes = "#".repeat(4);
        writeln!(mods, "#[allow(unused, non_camel_case_types, clippy::all)]\npub mod c_{name} {{ include!(concat!(env!(\"OUT_DIR\"), \"/{name}_lib.rs\")); include!(concat!(env!(\"OUT_DIR\"), \"/{name}_probe.rs\")); }}").unwrap();
        // the same grammar text handed to the macro in every spelling of a string literal
        let mut styles = vec![("hash", format!("r{hashes}\"{text}\"{hashes}")), ("esc", format!("{text:?}"))];
        if !text.contains('"') {
            styles.push(("raw", format!("r\"{text}\"")));
            styles.push(("raw1", format!("r#\"{text}\"#")));
        }
        for (style, lit) in styles {
            writeln!(mods, "#[allow(unused, non_camel_case_types, clippy::all)]\npub mod m_{name}_{style} {{ peginator_macro::peginate!({lit}); include!(concat!(env!(\"OUT_DIR\"), \"/{name}_probe.rs\")); }}").unwrap();
            writeln!(table, "    (\"{name}/{style}\", c_{name}::type_report as fn() -> Vec<String>, m_{name}_{style}::type_report as fn() -> Vec<String>, c_{name}::parse_debug as fn(&str) -> String, m_{name}_{style}::parse_debug as fn(&str) -> String),").unwrap();
        }
    }
    fs::write(out.join("mods.rs"), format!("{mods}\npub const ROUTES: &[(&str, fn() -> Vec<String>, fn() -> Vec<String>, fn(&str) -> String, fn(&str) -> String)] = &[\n{table}];\n")).unwrap();
}
