//! C16 (c): `peginate!` expands to a parser with the same types and the same behaviour as the
//! library route.  Both live in this crate; a compile error here is already a difference.
use std::marker::PhantomData;

pub struct Wrap<T>(pub PhantomData<T>);

macro_rules! probe_trait {
    ($yes:ident, $no:ident, $($bound:tt)+) => {
        pub trait $yes { fn probe(&self) -> bool; }
        impl<T: $($bound)+> $yes for Wrap<T> { fn probe(&self) -> bool { true } }
        pub trait $no { fn probe(&self) -> bool; }
        impl<T> $no for &Wrap<T> { fn probe(&self) -> bool { false } }
    };
}

pub mod p_debug { use super::Wrap; probe_trait!(Yes, No, std::fmt::Debug); }
pub mod p_clone { use super::Wrap; probe_trait!(Yes, No, Clone); }
pub mod p_copy { use super::Wrap; probe_trait!(Yes, No, Copy); }
pub mod p_partialeq { use super::Wrap; probe_trait!(Yes, No, PartialEq); }
pub mod p_eq { use super::Wrap; probe_trait!(Yes, No, Eq); }
pub mod p_hash { use super::Wrap; probe_trait!(Yes, No, std::hash::Hash); }
pub mod p_default { use super::Wrap; probe_trait!(Yes, No, Default); }
pub mod p_partialord { use super::Wrap; probe_trait!(Yes, No, PartialOrd); }
pub mod p_send { use super::Wrap; probe_trait!(Yes, No, Send); }
pub mod p_sync { use super::Wrap; probe_trait!(Yes, No, Sync); }

#[macro_export]
macro_rules! probe_one {
    ($m:ident, $t:ty) => {{
        #[allow(unused_imports)]
        use $crate::$m::{No as _, Yes as _};
        (&$crate::Wrap::<$t>(std::marker::PhantomData)).probe()
    }};
}

#[macro_export]
macro_rules! probe_line {
    ($name:expr, $t:ty) => {
        format!(
            "{} size={} align={} Debug={} Clone={} Copy={} PartialEq={} Eq={} Hash={} Default={} PartialOrd={} Send={} Sync={}",
            $name,
            std::mem::size_of::<$t>(),
            std::mem::align_of::<$t>(),
            $crate::probe_one!(p_debug, $t),
            $crate::probe_one!(p_clone, $t),
            $crate::probe_one!(p_copy, $t),
            $crate::probe_one!(p_partialeq, $t),
            $crate::probe_one!(p_eq, $t),
            $crate::probe_one!(p_hash, $t),
            $crate::probe_one!(p_default, $t),
            $crate::probe_one!(p_partialord, $t),
            $crate::probe_one!(p_send, $t),
            $crate::probe_one!(p_sync, $t),
        )
    };
}

// items the `paths` grammar names through `crate::` and `super::`
#[derive(Debug, Clone, PartialEq, Eq)]
pub struct Num(pub u32);
#[derive(Debug, Clone, PartialEq, Eq)]
pub struct Up2(pub char);
pub fn ext_num(s: &str) -> Result<(Num, usize), &'static str> {
    let n = s.bytes().take_while(|b| b.is_ascii_digit()).count();
    if n == 0 || n > 6 { Err("number") } else { Ok((Num(s[..n].parse().unwrap()), n)) }
}

include!(concat!(env!("OUT_DIR"), "/mods.rs"));

struct Rng(u64);
impl Rng {
    fn next(&mut self) -> u64 {
        self.0 = self.0.wrapping_add(0x9E3779B97F4A7C15);
        let mut z = self.0;
        z = (z ^ (z >> 30)).wrapping_mul(0xBF58476D1CE4E5B9);
        z = (z ^ (z >> 27)).wrapping_mul(0x94D049BB133111EB);
        z ^ (z >> 31)
    }
}

fn alphabet(name: &str) -> &'static [&'static str] {
    match name.split('/').next().unwrap_or(name) {
        "escapes" => &["\\", "n", "\n", "\r\n", "'", "\"", "A", "é", "ő", "\u{1F600}", "\u{1F601}", "\t", "tab\\n", "TAB\\N", " "],
        "keywords" => &["type", "fn", "loop", "match", " ", "x"],
        "rawable" => &["\\", "n", "\n", "'", "''", "ab", "é", " "],
        "charcheck" => &["a", "c", "q", "p", "s", "x", "y", "z", "-", "7", "3", "12", "b"],
        "paths" => &["n", "w", "c", "t", "u", "12", "7", "ab", "q", "Z", "K", " "],
        "calc" => &["1", "23", "+", "-", "*", "/", "(", ")", " "],
        "pos" => &["ab", "é", "=", "+", "\"", "x y", " ", "\n", "# c\n", "7", "k"],
        "inc_a" => &["h", "ab", ",", "[", "]", "12", " "],
        "inc_b" => &["12", "AB", "C", " ", "7"],
        _ => &["a", "b", "c", "1", "23", "x", "yz", "(", ")", ";", " "],
    }
}

fn main() {
    let seed: u64 = std::env::args().nth(1).and_then(|s| s.parse().ok()).unwrap_or(1);
    let mut bad = 0;
    let mut parses = 0;
    let mut oks = 0;
    let mut types = 0;
    for (name, c_types, m_types, c_parse, m_parse) in ROUTES {
        let (ct, mt) = (c_types(), m_types());
        types += ct.len();
        if ct != mt {
            bad += 1;
            println!("TYPES DIFFER for grammar {name}:");
            for (a, b) in ct.iter().zip(mt.iter()) {
                if a != b {
                    println!("  library: {a}\n  macro:   {b}");
                }
            }
        }
        let mut rng = Rng(seed ^ name.len() as u64);
        let alpha = alphabet(name);
        for _ in 0..200 {
            let n = rng.next() % 12;
            let mut s = String::new();
            for _ in 0..n {
                s.push_str(alpha[(rng.next() % alpha.len() as u64) as usize]);
            }
            let (a, b) = (c_parse(&s), m_parse(&s));
            parses += 1;
            if a.starts_with("Ok") {
                oks += 1;
            }
            if a != b {
                bad += 1;
                println!("BEHAVIOUR DIFFERS for grammar {name} on {s:?}:\n  library: {a}\n  macro:   {b}");
            }
        }
    }
    println!("MACRO_ROUTE grammars={} types={} parses={} ok_parses={} differences={}", ROUTES.len(), types, parses, oks, bad);
    if bad > 0 {
        std::process::exit(1);
    }
}
