//! Parsers under test (generated at build time from /verif/corpus by the working
//! tree's peginator_codegen) plus the simulator runtime they are driven by.
use std::fmt::Debug;

use peginator::{IndentedTracer, NoopTracer, ParseSettings, PegParser, PegParserAdvanced};

pub mod simrt;
pub use simrt::Ctx;

#[derive(Debug, Clone, Copy, PartialEq, Eq)]
pub enum Entry {
    /// `PegParser::parse`
    Parse,
    /// `PegParser::parse_with_trace` (IndentedTracer, eprintln!)
    Trace,
    /// `parse_advanced::<SimTracer>`: every tracer callback is a yield point
    Sim,
    /// `parse_advanced::<NoopTracer>`
    Noop,
}

impl Entry {
    pub fn from_name(s: &str) -> Option<Entry> {
        Some(match s {
            "parse" => Entry::Parse,
            "trace" => Entry::Trace,
            "sim" => Entry::Sim,
            "noop" => Entry::Noop,
            _ => return None,
        })
    }
}

#[derive(Debug, Clone, Copy)]
pub struct VariantInfo {
    pub name: &'static str,
    pub grammar: &'static str,
    pub mask: u32,
    pub nmemo: usize,
    pub memoized: &'static [&'static str],
    pub exported: &'static [&'static str],
    pub ctx: bool,
    pub hooks: bool,
}

pub fn run_plain<T: PegParserAdvanced<()> + Debug>(input: &str, entry: Entry, ctx: Ctx) -> (String, Ctx) {
    let r = match entry {
        Entry::Parse => T::parse(input),
        Entry::Trace => T::parse_with_trace(input),
        Entry::Sim => T::parse_advanced::<simrt::SimTracer>(input, &current_settings(), ()),
        Entry::Noop => T::parse_advanced::<NoopTracer>(input, &current_settings(), ()),
    };
    (format!("{r:?}"), ctx)
}

pub fn run_ctx<T: for<'c> PegParserAdvanced<&'c mut Ctx> + Debug>(
    input: &str,
    entry: Entry,
    mut ctx: Ctx,
) -> (String, Ctx) {
    let r = match entry {
        Entry::Parse | Entry::Noop => T::parse_advanced::<NoopTracer>(input, &current_settings(), &mut ctx),
        Entry::Trace => T::parse_advanced::<IndentedTracer>(input, &current_settings(), &mut ctx),
        Entry::Sim => T::parse_advanced::<simrt::SimTracer>(input, &current_settings(), &mut ctx),
    };
    (format!("{r:?}"), ctx)
}

include!(concat!(env!("OUT_DIR"), "/corpus_generated.rs"));
include!(concat!(env!("OUT_DIR"), "/settings_generated.rs"));

thread_local! {
    /// selector of the `ParseSettings` knobs for the next `parse_advanced` call of this thread (0 = defaults)
    static SETTINGS_SEL: std::cell::Cell<u64> = const { std::cell::Cell::new(0) };
}

pub fn set_settings_selector(sel: u64) {
    SETTINGS_SEL.with(|s| s.set(sel));
}

fn current_settings() -> ParseSettings {
    seeded_settings(SETTINGS_SEL.with(|s| s.get()))
}
