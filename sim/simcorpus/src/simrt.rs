//! Simulator runtime: a baton scheduler over real OS threads.
//!
//! Exactly one task runs user code at any time; every other task is parked on its
//! condition variable.  At a yield point the running thread, still holding the
//! simulation lock, appends the event to the log, draws the next task from the
//! simulation PRNG (or takes it from the recorded choice list on replay) and hands the
//! baton over.  PRNG, log and ready set are only touched by the baton holder, so an
//! execution is a pure function of (plan, code under test) although the threads are real.
use std::{
    cell::{Cell, RefCell},
    sync::{Arc, Condvar, Mutex},
};

use peginator::{ParseResult, ParseState, ParseTracer};

/// User context of corpus grammar `hooks_ctx` (part of the observable result).
#[derive(Debug, Clone, Copy, PartialEq, Eq, Default)]
pub struct Ctx {
    pub retval: u32,
    pub a_count: u32,
    pub calls: u32,
}

pub const EV_JOB_START: u8 = 0;
pub const EV_JOB_END: u8 = 1;
pub const EV_START: u8 = 2;
pub const EV_OK: u8 = 3;
pub const EV_ERR: u8 = 4;
pub const EV_INFO: u8 = 5;
pub const EV_HOOK: u8 = 6;
pub const NO_OFF: u32 = u32::MAX;

pub fn kind_name(k: u8) -> &'static str {
    match k {
        EV_JOB_START => "job_start",
        EV_JOB_END => "job_end",
        EV_START => "start",
        EV_OK => "ok",
        EV_ERR => "err",
        EV_INFO => "info",
        EV_HOOK => "hook",
        _ => "?",
    }
}

#[derive(Debug, Clone)]
pub struct Event {
    pub task: u16,
    pub job: u16,
    pub kind: u8,
    pub name: String,
    pub off: u32,
}

#[derive(Debug, Clone)]
pub struct Rng(pub u64);

impl Rng {
    pub fn next(&mut self) -> u64 {
        self.0 = self.0.wrapping_add(0x9E3779B97F4A7C15);
        let mut z = self.0;
        z = (z ^ (z >> 30)).wrapping_mul(0xBF58476D1CE4E5B9);
        z = (z ^ (z >> 27)).wrapping_mul(0x94D049BB133111EB);
        z ^ (z >> 31)
    }
    pub fn below(&mut self, n: u64) -> u64 {
        if n == 0 {
            0
        } else {
            self.next() % n
        }
    }
}

#[derive(Debug, Clone)]
pub enum Policy {
    /// continue the current task unless a coin with the given permille says switch
    Random { switch_permille: u32 },
    /// PCT-like: static random priorities, the running task drops to lowest priority at change points
    Pct { change_points: Vec<u64> },
    /// run to completion with forced preemptions at the given steps
    Rtc { preempt_steps: Vec<u64> },
    /// one task is not scheduled during [from, until)
    Stall { victim: usize, from: u64, until: u64, switch_permille: u32 },
    /// force a switch (with the given permille) right after events of the listed (kind, name) - empty name = any
    Targeted { targets: Vec<(u8, String)>, permille: u32, switch_permille: u32 },
}

#[derive(Debug, Clone)]
pub struct SimConfig {
    pub ntasks: usize,
    pub seed: u64,
    pub policy: Policy,
    /// task t is not eligible before this step (staggered start), unless nothing else can run
    pub start_at: Vec<u64>,
    pub replay: Option<Vec<u16>>,
    pub keep_log: bool,
}

#[derive(Debug, Default, Clone)]
pub struct SimReport {
    pub choices: Vec<u16>,
    pub steps: u64,
    pub switches: u64,
    pub log_hash: u64,
    pub switch_hash: u64,
    pub switch_points: Vec<u64>,
    pub cache_hits: u64,
    pub leftrec_rounds: u64,
    pub hook_events: u64,
    pub rule_events: u64,
    pub switches_inside_parse: u64,
    pub diverged: bool,
    pub log: Vec<Event>,
    /// (task, job) -> (first seq, last seq)
    pub job_spans: Vec<(u16, u16, u64, u64)>,
}

struct Inner {
    current: Option<usize>,
    runnable: Vec<bool>,
    registered: usize,
    rng: Rng,
    policy: Policy,
    prio: Vec<i64>,
    start_at: Vec<u64>,
    replay: Option<Vec<u16>>,
    replay_pos: usize,
    keep_log: bool,
    rep: SimReport,
    in_job: Vec<bool>,
}

pub struct Sim {
    inner: Mutex<Inner>,
    cvs: Vec<Condvar>,
    main_cv: Condvar,
    ntasks: usize,
}

fn fnv(h: &mut u64, bytes: &[u8]) {
    for b in bytes {
        *h ^= *b as u64;
        *h = h.wrapping_mul(0x100000001b3);
    }
}

impl Inner {
    fn log_event(&mut self, ev: &Event) {
        let seq = self.rep.steps;
        let h = &mut self.rep.log_hash;
        fnv(h, &ev.task.to_le_bytes());
        fnv(h, &ev.job.to_le_bytes());
        fnv(h, &[ev.kind]);
        fnv(h, ev.name.as_bytes());
        fnv(h, &ev.off.to_le_bytes());
        match ev.kind {
            EV_INFO => {
                if ev.name.starts_with("Cache hit") {
                    self.rep.cache_hits += 1
                } else if ev.name.starts_with("Starting new left") {
                    self.rep.leftrec_rounds += 1
                }
            }
            EV_HOOK => self.rep.hook_events += 1,
            EV_START | EV_OK | EV_ERR => self.rep.rule_events += 1,
            EV_JOB_START => {
                self.in_job[ev.task as usize] = true;
                self.rep.job_spans.push((ev.task, ev.job, seq, seq));
            }
            EV_JOB_END => {
                self.in_job[ev.task as usize] = false;
                if let Some(s) = self.rep.job_spans.iter_mut().rev().find(|s| s.0 == ev.task && s.1 == ev.job) {
                    s.3 = seq;
                }
            }
            _ => {}
        }
        if self.keep_log {
            self.rep.log.push(ev.clone());
        }
        self.rep.steps += 1;
    }

    fn decide(&mut self, cur: Option<usize>, ev: Option<&Event>) -> usize {
        let step = self.rep.steps;
        let n = self.runnable.len();
        let runnable: Vec<usize> = (0..n).filter(|&t| self.runnable[t]).collect();
        assert!(!runnable.is_empty(), "scheduler: nothing runnable");
        let mut eligible: Vec<usize> = runnable.iter().copied().filter(|&t| step >= self.start_at[t]).collect();
        if let Policy::Stall { victim, from, until, .. } = &self.policy {
            if step >= *from && step < *until {
                eligible.retain(|t| t != victim);
            }
        }
        if eligible.is_empty() {
            eligible = runnable.clone();
        }
        let cur_ok = cur.filter(|c| eligible.contains(c));
        let choice = if let Some(rep) = &self.replay {
            let c = rep.get(self.replay_pos).copied();
            self.replay_pos += 1;
            match c {
                Some(c) if (c as usize) < n && self.runnable[c as usize] => c as usize,
                _ => {
                    self.rep.diverged = true;
                    cur.filter(|c| self.runnable[*c]).unwrap_or(runnable[0])
                }
            }
        } else {
            let others: Vec<usize> = eligible.iter().copied().filter(|t| Some(*t) != cur).collect();
            let pick_other = |rng: &mut Rng| -> usize {
                if others.is_empty() {
                    cur_ok.unwrap_or(eligible[0])
                } else {
                    others[rng.below(others.len() as u64) as usize]
                }
            };
            let coin = |rng: &mut Rng, permille: u32| -> bool { rng.below(1000) < permille as u64 };
            match &self.policy {
                Policy::Random { switch_permille } | Policy::Stall { switch_permille, .. } => {
                    let p = *switch_permille;
                    match cur_ok {
                        Some(c) if !coin(&mut self.rng, p) => c,
                        _ => pick_other(&mut self.rng),
                    }
                }
                Policy::Pct { change_points } => {
                    if let Some(c) = cur {
                        if change_points.contains(&step) {
                            let lowest = self.prio.iter().copied().min().unwrap_or(0);
                            self.prio[c] = lowest - 1;
                        }
                    }
                    *eligible.iter().max_by_key(|t| self.prio[**t]).unwrap()
                }
                Policy::Rtc { preempt_steps } => match cur_ok {
                    Some(c) if !preempt_steps.contains(&step) => c,
                    _ => pick_other(&mut self.rng),
                },
                Policy::Targeted { targets, permille, switch_permille } => {
                    let hit = ev.map_or(false, |e| {
                        targets.iter().any(|(k, nm)| *k == e.kind && (nm.is_empty() || *nm == e.name))
                    });
                    let (p, sp) = (*permille, *switch_permille);
                    if hit && coin(&mut self.rng, p) {
                        pick_other(&mut self.rng)
                    } else {
                        match cur_ok {
                            Some(c) if !coin(&mut self.rng, sp) => c,
                            _ => pick_other(&mut self.rng),
                        }
                    }
                }
            }
        };
        self.rep.choices.push(choice as u16);
        choice
    }

    fn note_switch(&mut self, from: usize, to: usize, ev: Option<&Event>) {
        self.rep.switches += 1;
        let mut h = 0xcbf29ce484222325u64;
        if let Some(e) = ev {
            fnv(&mut h, &[e.kind]);
            fnv(&mut h, e.name.as_bytes());
            fnv(&mut h, &e.off.to_le_bytes());
            if e.kind != EV_JOB_START && e.kind != EV_JOB_END {
                self.rep.switches_inside_parse += 1;
            }
        }
        if self.rep.switch_points.len() < 256 {
            self.rep.switch_points.push(h);
        }
        let sh = &mut self.rep.switch_hash;
        fnv(sh, &(self.rep.steps).to_le_bytes());
        fnv(sh, &(from as u16).to_le_bytes());
        fnv(sh, &(to as u16).to_le_bytes());
    }
}

impl Sim {
    pub fn new(cfg: SimConfig) -> Arc<Sim> {
        let n = cfg.ntasks;
        let mut rng = Rng(cfg.seed);
        // PCT priorities: a seeded permutation
        let mut prio: Vec<i64> = (0..n as i64).collect();
        for i in (1..n).rev() {
            let j = rng.below(i as u64 + 1) as usize;
            prio.swap(i, j);
        }
        let mut rep = SimReport::default();
        rep.log_hash = 0xcbf29ce484222325;
        rep.switch_hash = 0xcbf29ce484222325;
        Arc::new(Sim {
            inner: Mutex::new(Inner {
                current: None,
                runnable: vec![false; n],
                registered: 0,
                rng,
                policy: cfg.policy,
                prio,
                start_at: cfg.start_at,
                replay: cfg.replay,
                replay_pos: 0,
                keep_log: cfg.keep_log,
                rep,
                in_job: vec![false; n],
            }),
            cvs: (0..n).map(|_| Condvar::new()).collect(),
            main_cv: Condvar::new(),
            ntasks: n,
        })
    }

    /// Called by a task's thread before it does anything: register, then wait for the baton.
    pub fn task_enter(&self, task: usize) {
        let mut g = self.inner.lock().unwrap();
        g.runnable[task] = true;
        g.registered += 1;
        self.main_cv.notify_all();
        while g.current != Some(task) {
            g = self.cvs[task].wait(g).unwrap();
        }
    }

    /// Called by a task's thread when its queue is empty: give the baton away for good.
    pub fn task_exit(&self, task: usize) {
        let mut g = self.inner.lock().unwrap();
        assert_eq!(g.current, Some(task));
        g.runnable[task] = false;
        if g.runnable.iter().any(|r| *r) {
            let next = g.decide(Some(task), None);
            g.note_switch(task, next, None);
            g.current = Some(next);
            self.cvs[next].notify_one();
        } else {
            g.current = None;
            self.main_cv.notify_all();
        }
    }

    /// Main thread: wait until every task thread is parked, then hand out the first baton.
    pub fn start(&self) {
        let mut g = self.inner.lock().unwrap();
        while g.registered < self.ntasks {
            g = self.main_cv.wait(g).unwrap();
        }
        if self.ntasks == 0 {
            return;
        }
        let first = g.decide(None, None);
        g.current = Some(first);
        self.cvs[first].notify_one();
    }

    pub fn yield_point(&self, task: usize, ev: Event) {
        let mut g = self.inner.lock().unwrap();
        assert_eq!(g.current, Some(task), "yield from a task that does not hold the baton");
        g.log_event(&ev);
        let next = g.decide(Some(task), Some(&ev));
        if next != task {
            g.note_switch(task, next, Some(&ev));
            g.current = Some(next);
            self.cvs[next].notify_one();
            while g.current != Some(task) {
                g = self.cvs[task].wait(g).unwrap();
            }
        }
    }

    pub fn report(&self) -> SimReport {
        self.inner.lock().unwrap().rep.clone()
    }
}

thread_local! {
    static CUR: RefCell<Option<(Arc<Sim>, usize)>> = const { RefCell::new(None) };
    static JOB: Cell<(u16, u32)> = const { Cell::new((0, 0)) };
    static STACK: RefCell<Vec<String>> = const { RefCell::new(Vec::new()) };
    static NEST_ERR: Cell<bool> = const { Cell::new(false) };
}

/// Bind the calling OS thread to a task of a simulation (real TLS: a fresh thread starts unbound).
pub fn bind_thread(sim: &Arc<Sim>, task: usize) {
    CUR.with(|c| *c.borrow_mut() = Some((sim.clone(), task)));
}

pub fn unbind_thread() {
    CUR.with(|c| *c.borrow_mut() = None);
}

pub fn set_job(job: u16, input_len: u32) {
    JOB.with(|j| j.set((job, input_len)));
    STACK.with(|s| s.borrow_mut().clear());
    NEST_ERR.with(|n| n.set(false));
}

/// True if the tracer callbacks of the job that just ran on this thread were not well nested.
pub fn nesting_error() -> bool {
    NEST_ERR.with(|n| n.get()) || STACK.with(|s| !s.borrow().is_empty())
}

pub fn emit(kind: u8, name: &str, off: u32) {
    let cur = CUR.with(|c| c.borrow().clone());
    if let Some((sim, task)) = cur {
        let (job, _) = JOB.with(|j| j.get());
        sim.yield_point(task, Event { task: task as u16, job, kind, name: name.to_string(), off });
    }
}

/// Yield point inside corpus @extern/@check functions.
pub fn hook_yield(name: &str) {
    emit(EV_HOOK, name, NO_OFF);
}

#[derive(Debug, Clone, Copy)]
pub struct SimTracer;

impl ParseTracer for SimTracer {
    fn new() -> Self {
        SimTracer
    }

    fn print_informative(&mut self, s: &str) {
        emit(EV_INFO, s, NO_OFF);
    }

    fn print_trace_start(&mut self, state: &ParseState, name: &str) {
        let (_, len) = JOB.with(|j| j.get());
        let off = len.saturating_sub(state.s().len() as u32);
        STACK.with(|s| s.borrow_mut().push(name.to_string()));
        emit(EV_START, name, off);
    }

    fn print_trace_result<T>(&mut self, result: &ParseResult<T>) {
        let (_, len) = JOB.with(|j| j.get());
        let name = STACK.with(|s| s.borrow_mut().pop()).unwrap_or_else(|| {
            NEST_ERR.with(|n| n.set(true));
            String::from("<unbalanced>")
        });
        match result {
            Ok(ok) => emit(EV_OK, &name, len.saturating_sub(ok.state.s().len() as u32)),
            Err(e) => emit(EV_ERR, &name, e.position as u32),
        }
    }
}
