// Generates the parsers under test from /verif/corpus with the *working tree's*
// peginator_codegen: every corpus grammar in every @memoize subset variant.
use std::{env, fmt::Write as _, fs, path::PathBuf, str::FromStr};

use peginator_codegen::{CodegenGrammar, CodegenSettings, Grammar};

fn memo_rules(text: &str) -> Vec<String> {
    text.lines()
        .filter_map(|l| l.strip_prefix("#MEMO:"))
        .map(|s| s.trim().to_string())
        .collect()
}

fn variant_text(text: &str, rules: &[String], mask: u32) -> String {
    let mut out = String::new();
    for line in text.lines() {
        if let Some(name) = line.strip_prefix("#MEMO:") {
            let idx = rules.iter().position(|r| r == name.trim()).unwrap();
            if mask & (1 << idx) != 0 {
                out.push_str("@memoize\n");
            }
        } else {
            out.push_str(line);
            out.push('\n');
        }
    }
    out
}

fn exported_rules(g: &Grammar) -> Vec<String> {
    use peginator_codegen::grammar::{DirectiveExpression, Grammar_rules};
    g.rules
        .iter()
        .filter_map(|r| match r {
            Grammar_rules::Rule(r)
                if r.directives
                    .iter()
                    .any(|d| matches!(d, DirectiveExpression::ExportDirective(_))) =>
            {
                Some(r.name.clone())
            }
            _ => None,
        })
        .collect()
}

/// One variant per process: a generator that keeps state from one grammar to the next must not be able to spoil the
/// corpus (that is C16's business, and C16 can only report it if the harness builds).  The build script runs itself
/// once per variant: grammar text on stdin, first line of the answer = exported rules, rest = generated code.
fn child() {
    use std::io::Read;
    let mut vtext = String::new();
    std::io::stdin().read_to_string(&mut vtext).unwrap();
    let vname = env::var("SIMCORPUS_CHILD").unwrap();
    let grammar = Grammar::from_str(&vtext).unwrap_or_else(|e| panic!("corpus grammar {vname} does not parse: {e:?}"));
    let mut settings = CodegenSettings::default();
    if env::var("SIMCORPUS_CTX").is_ok() {
        settings.set_user_context_type("crate::simrt::Ctx");
    }
    let code = grammar
        .generate_code(&settings)
        .unwrap_or_else(|e| panic!("corpus grammar {vname}: codegen failed: {e:?}"));
    // whatever the generator itself printed on stdout so far is in front of the marker and is ignored by the parent
    println!("\nSIMCORPUS-EXPORTED\t{}", exported_rules(&grammar).join(","));
    print!("{code}");
}

fn generate_in_child(vname: &str, vtext: &str, ctx: bool) -> (Vec<String>, String) {
    use std::io::Write as _;
    use std::process::{Command, Stdio};
    let mut cmd = Command::new(env::current_exe().unwrap());
    cmd.env("SIMCORPUS_CHILD", vname).stdin(Stdio::piped()).stdout(Stdio::piped()).stderr(Stdio::inherit());
    if ctx {
        cmd.env("SIMCORPUS_CTX", "1");
    }
    let mut ch = cmd.spawn().expect("re-run the build script for one variant");
    ch.stdin.take().unwrap().write_all(vtext.as_bytes()).unwrap();
    let out = ch.wait_with_output().unwrap();
    if !out.status.success() {
        panic!("corpus grammar {vname}: the generator failed in a process of its own");
    }
    let s = String::from_utf8(out.stdout).unwrap();
    let at = s.rfind("\nSIMCORPUS-EXPORTED\t").unwrap_or_else(|| panic!("corpus grammar {vname}: no answer from the child"));
    let (first, code) = s[at + "\nSIMCORPUS-EXPORTED\t".len()..].split_once('\n').unwrap();
    (first.split(',').filter(|x| !x.is_empty()).map(|x| x.to_string()).collect(), code.to_string())
}

fn main() {
    if env::var("SIMCORPUS_CHILD").is_ok() {
        return child();
    }
    let manifest_dir = PathBuf::from(env::var("CARGO_MANIFEST_DIR").unwrap());
    let corpus_dir = manifest_dir.join("../../corpus").canonicalize().unwrap();
    let out_dir = PathBuf::from(env::var("OUT_DIR").unwrap());
    println!("cargo:rerun-if-changed={}", corpus_dir.display());
    println!("cargo:rerun-if-changed=build.rs");
    // variants can be restricted for the Miri build (fewer modules to interpret/compile)
    println!("cargo:rerun-if-env-changed=SIMCORPUS_SMALL");
    let small = env::var("SIMCORPUS_SMALL").is_ok();

    let corpus: serde_json::Value =
        serde_json::from_str(&fs::read_to_string(corpus_dir.join("corpus.json")).unwrap()).unwrap();

    let mut mods = String::new();
    let mut dispatch = String::new();
    let mut infos = String::new();

    for g in corpus["grammars"].as_array().unwrap() {
        let name = g["name"].as_str().unwrap();
        let ctx = g["ctx"].as_bool().unwrap();
        let hooks = g["hooks"].as_bool().unwrap();
        let path = corpus_dir.join(format!("{name}.ebnf"));
        println!("cargo:rerun-if-changed={}", path.display());
        let text = fs::read_to_string(&path).unwrap();
        let rules = memo_rules(&text);
        let nmask = 1u32 << rules.len();
        for mask in 0..nmask {
            if small && !(mask == 0 || mask == nmask - 1) {
                continue;
            }
            let vname = format!("{name}_m{mask}");
            let vtext = variant_text(&text, &rules, mask);
            let (exported, code) = generate_in_child(&vname, &vtext, ctx);
            fs::write(out_dir.join(format!("{vname}.rs")), code).unwrap();
            fs::write(out_dir.join(format!("{vname}.ebnf")), &vtext).unwrap();

            writeln!(mods, "#[allow(clippy::all, non_camel_case_types, unused)]\npub mod {vname} {{").unwrap();
            if hooks {
                writeln!(
                    mods,
                    "    include!({:?});",
                    corpus_dir.join(format!("{name}.hooks.rs")).to_str().unwrap()
                )
                .unwrap();
            }
            writeln!(mods, "    include!(concat!(env!(\"OUT_DIR\"), \"/{vname}.rs\"));\n}}").unwrap();

            for r in &exported {
                if ctx {
                    writeln!(
                        dispatch,
                        "        ({vname:?}, {r:?}) => Some(crate::run_ctx::<generated::{vname}::{r}>(input, entry, ctx)),"
                    )
                    .unwrap();
                } else {
                    writeln!(
                        dispatch,
                        "        ({vname:?}, {r:?}) => Some(crate::run_plain::<generated::{vname}::{r}>(input, entry, ctx)),"
                    )
                    .unwrap();
                }
            }
            let memo_in: Vec<&String> = rules
                .iter()
                .enumerate()
                .filter(|(i, _)| mask & (1 << i) != 0)
                .map(|(_, r)| r)
                .collect();
            writeln!(
                infos,
                "    VariantInfo {{ name: {vname:?}, grammar: {name:?}, mask: {mask}, nmemo: {}, memoized: &{memo_in:?}, exported: &{exported:?}, ctx: {ctx}, hooks: {hooks} }},",
                rules.len()
            )
            .unwrap();
        }
    }

    let generated = format!(
        "pub mod generated {{\n{mods}\n}}\n\
         pub fn dispatch(variant: &str, rule: &str, input: &str, entry: Entry, ctx: Ctx) -> Option<(String, Ctx)> {{\n\
         \x20   match (variant, rule) {{\n{dispatch}        _ => None,\n    }}\n}}\n\
         pub const VARIANTS: &[VariantInfo] = &[\n{infos}];\n"
    );
    fs::write(out_dir.join("corpus_generated.rs"), generated).unwrap();
    fs::write(out_dir.join("settings_generated.rs"), settings_knobs()).unwrap();
}

/// `ParseSettings` is the run-time configuration seam of a parser.  Its knobs are taken from the working tree (public
/// fields and one-argument builder/setter methods of simple types), so that a simulation can turn them: the properties
/// quantify over every configuration, not only the default one.  On a tree without knobs this generates the default.
fn settings_knobs() -> String {
    let dir = PathBuf::from("/repo/runtime/src");
    println!("cargo:rerun-if-changed={}", dir.display());
    let mut text = String::new();
    let mut files: Vec<_> = fs::read_dir(&dir).map(|d| d.filter_map(|e| e.ok()).map(|e| e.path()).collect()).unwrap_or_default();
    files.sort();
    for f in files {
        if f.extension().map_or(false, |e| e == "rs") {
            text.push_str(&fs::read_to_string(&f).unwrap_or_default());
            text.push('\n');
        }
    }
    fn values(ty: &str) -> Option<Vec<&'static str>> {
        let t: String = ty.chars().filter(|c| !c.is_whitespace()).collect();
        let ints = ["usize", "u8", "u16", "u32", "u64", "isize", "i8", "i16", "i32", "i64"];
        if t == "bool" {
            return Some(vec!["false", "true"]);
        }
        if ints.contains(&t.as_str()) {
            return Some(vec!["0", "1", "2", "3", "8", "100"]);
        }
        if let Some(inner) = t.strip_prefix("Option<").and_then(|x| x.strip_suffix('>')) {
            if inner == "bool" {
                return Some(vec!["None", "Some(false)", "Some(true)"]);
            }
            if ints.contains(&inner) {
                return Some(vec!["None", "Some(0)", "Some(1)", "Some(2)", "Some(3)", "Some(8)", "Some(100)"]);
            }
        }
        None
    }
    let mut knobs: Vec<(String, String, Vec<&'static str>)> = Vec::new(); // (statement template with {v}, description, values)
    if let Some(start) = text.find("pub struct ParseSettings") {
        let rest = &text[start..];
        if let (Some(open), Some(close)) = (rest.find('{'), rest.find('}')) {
            if open < close {
                for line in rest[open + 1..close].lines() {
                    let line = line.trim();
                    if let Some(decl) = line.strip_prefix("pub ") {
                        if let Some((name, ty)) = decl.trim_end_matches(',').split_once(':') {
                            let (name, ty) = (name.trim(), ty.trim());
                            if name.chars().all(|c| c.is_alphanumeric() || c == '_') {
                                if let Some(v) = values(ty) {
                                    knobs.push((format!("s.{name} = {{v}};"), format!("field {name}: {ty}"), v));
                                }
                            }
                        }
                    }
                }
            }
        }
    }
    // methods of `impl ParseSettings`: fn name(self|mut self|&mut self, x: T) [-> Self]
    let mut at = 0;
    while let Some(i) = text[at..].find("impl ParseSettings") {
        let from = at + i;
        let end = text[from..].find("\n}").map_or(text.len(), |e| from + e);
        for line in text[from..end].lines() {
            let line = line.trim();
            if let Some(sig) = line.strip_prefix("pub fn ") {
                if let (Some(po), Some(pc)) = (sig.find('('), sig.find(')')) {
                    let name = sig[..po].trim();
                    let params: Vec<&str> = sig[po + 1..pc].split(',').map(|x| x.trim()).collect();
                    if params.len() == 2 && ["self", "mut self", "&mut self"].contains(&params[0]) {
                        if let Some((_, ty)) = params[1].split_once(':') {
                            if let Some(v) = values(ty) {
                                let field_known = knobs.iter().any(|k| k.1.starts_with("field ") && name.ends_with(k.1[6..].split(':').next().unwrap_or("?")));
                                if !field_known {
                                    let stmt = if params[0] == "&mut self" { format!("s.{name}({{v}});") } else { format!("s = s.{name}({{v}});") };
                                    knobs.push((stmt, format!("method {name}({})", ty.trim()), v));
                                }
                            }
                        }
                    }
                }
            }
        }
        at = end.min(text.len() - 1).max(from + 1);
    }
    let mut out = String::from("/// the knobs of `ParseSettings` found in the working tree, turned by a selector (0 = all defaults)\n#[allow(unused_mut, unused_variables, clippy::all)]\npub fn seeded_settings(sel: u64) -> peginator::ParseSettings {\n    let mut s = peginator::ParseSettings::default();\n    if sel == 0 {\n        return s;\n    }\n    let mut x = sel;\n");
    for (stmt, _, vals) in &knobs {
        writeln!(out, "    match x % {} {{", vals.len() + 1).unwrap();
        for (i, v) in vals.iter().enumerate() {
            writeln!(out, "        {} => {{ {} }}", i + 1, stmt.replace("{v}", v)).unwrap();
        }
        writeln!(out, "        _ => {{}}\n    }}\n    x /= {};", vals.len() + 1).unwrap();
    }
    out.push_str("    s\n}\n");
    writeln!(out, "pub const SETTINGS_KNOBS: &[&str] = &{:?};", knobs.iter().map(|k| k.1.clone()).collect::<Vec<_>>()).unwrap();
    out
}
