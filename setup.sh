#!/bin/bash
# Builds the framework offline from files on disk only.
set -e
cd "$(dirname "$0")"
exec ./check setup
